#![cfg(feature = "async-lock")]
use eyeball::{AsyncLock, ObservableWriteGuard, SharedObservable};
use std::future::Future;
use std::pin::pin;
use std::task::{Context, Poll, Waker};

#[test]
fn parked_permit_blocks_writers_and_the_subscriber_itself() {
    let cx_waker = Waker::noop();
    let mut cx = Context::from_waker(&cx_waker);
    let ob = SharedObservable::<u32, AsyncLock>::new_async(0);
    let sub = pin!(ob.subscribe()).poll(&mut cx);
    let Poll::Ready(mut sub) = sub else { panic!() };
    // a write guard is held while the subscriber is polled once; the call is then cancelled
    let Poll::Ready(mut g) = pin!(ob.write()).poll(&mut cx) else { panic!() };
    {
        let mut f = pin!(sub.next());
        assert!(f.as_mut().poll(&mut cx).is_pending());
    }
    ObservableWriteGuard::set(&mut g, 1);
    drop(g);
    // the subscriber takes the value another way
    let Poll::Ready(v) = pin!(sub.next_now()).poll(&mut cx) else { panic!("next_now pending") };
    assert_eq!(v, 1);
    // no guard is alive, nobody holds the lock visibly -- yet a writer cannot proceed
    let mut w = pin!(ob.set(2));
    let blocked = w.as_mut().poll(&mut cx).is_pending();
    // ... and the subscriber's own next_now() now queues behind that writer: both wait for ever
    let mut n = pin!(sub.next_now());
    let sub_blocked = n.as_mut().poll(&mut cx).is_pending();
    let blocked_again = w.as_mut().poll(&mut cx).is_pending();
    assert!(!(blocked && sub_blocked && blocked_again), "writer blocked: {blocked}, subscriber blocked: {sub_blocked}: deadlock with no guard alive");
}

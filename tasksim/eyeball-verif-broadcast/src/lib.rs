//! Drop-in for the part of `tokio::sync::broadcast` that eyeball-im uses, for builds of eyeball-im
//! with `--cfg eyeball_verif`. Everything is delegated to the real tokio channel; the only addition
//! is a *preemption point* right before and right after every receive operation — places where, on
//! a machine with more than one thread, the thread that owns the `ObservableVector` can run while a
//! subscriber's thread is in the middle of a `poll_next`. No tokio lock is held at these points.
//! The simulator installs a hook that is called at every point; without a hook this is tokio.

use std::cell::Cell;
use std::fmt;
use std::ops::{Deref, DerefMut};

use tokio::sync::broadcast as tk;

pub mod error {
    pub use tokio::sync::broadcast::error::*;
}

thread_local! {
    static HOOK: Cell<Option<fn()>> = const { Cell::new(None) };
    static POINTS: Cell<u64> = const { Cell::new(0) };
}

/// Install (or remove) the function called at every preemption point on this thread.
pub fn set_hook(f: Option<fn()>) {
    HOOK.with(|h| h.set(f));
}

/// Number of preemption points passed on this thread (evidence).
pub fn points() -> u64 {
    POINTS.with(|p| p.get())
}

#[inline]
fn point() {
    POINTS.with(|p| p.set(p.get() + 1));
    if let Some(f) = HOOK.with(|h| h.get()) {
        f();
    }
}

pub struct Sender<T>(tk::Sender<T>);
pub struct Receiver<T>(tk::Receiver<T>);

pub fn channel<T: Clone>(capacity: usize) -> (Sender<T>, Receiver<T>) {
    let (s, r) = tk::channel(capacity);
    (Sender(s), Receiver(r))
}

impl<T> Sender<T> {
    pub fn send(&self, value: T) -> Result<usize, error::SendError<T>> {
        self.0.send(value)
    }
    pub fn subscribe(&self) -> Receiver<T> {
        Receiver(self.0.subscribe())
    }
    pub fn receiver_count(&self) -> usize {
        self.0.receiver_count()
    }
}

impl<T> Clone for Sender<T> {
    fn clone(&self) -> Self {
        Sender(self.0.clone())
    }
}

/// Anything not wrapped explicitly falls through to tokio (without preemption points).
impl<T> Deref for Sender<T> {
    type Target = tk::Sender<T>;
    fn deref(&self) -> &Self::Target {
        &self.0
    }
}

impl<T> fmt::Debug for Sender<T> {
    fn fmt(&self, f: &mut fmt::Formatter<'_>) -> fmt::Result {
        self.0.fmt(f)
    }
}

impl<T: Clone> Receiver<T> {
    pub async fn recv(&mut self) -> Result<T, error::RecvError> {
        point();
        let r = self.0.recv().await;
        point();
        r
    }
    pub fn try_recv(&mut self) -> Result<T, error::TryRecvError> {
        point();
        let r = self.0.try_recv();
        point();
        r
    }
    pub fn resubscribe(&self) -> Self {
        Receiver(self.0.resubscribe())
    }
}

impl<T> Deref for Receiver<T> {
    type Target = tk::Receiver<T>;
    fn deref(&self) -> &Self::Target {
        &self.0
    }
}

impl<T> DerefMut for Receiver<T> {
    fn deref_mut(&mut self) -> &mut Self::Target {
        &mut self.0
    }
}

impl<T> fmt::Debug for Receiver<T> {
    fn fmt(&self, f: &mut fmt::Formatter<'_>) -> fmt::Result {
        self.0.fmt(f)
    }
}

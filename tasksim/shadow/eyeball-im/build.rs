fn main() {
    println!("cargo:rerun-if-changed=build.rs");
    println!("cargo:rustc-check-cfg=cfg(eyeball_verif)");
    println!("cargo:rustc-check-cfg=cfg(docsrs)");
    println!("cargo:rustc-cfg=eyeball_verif");
}

//! C20, static complement: a value that is not `Send` must never be able to cross threads inside
//! one of the library's handles — otherwise safe code can clone and drop it concurrently (lost
//! reference-count updates: dropped while still reachable, dropped twice). Nothing to simulate
//! here: whether `Handle<Rc<_>>: Send` holds is decided by the compiler; the probe below reads the
//! answer (inherent method if the bound holds, trait fallback if not) for every public handle and
//! stream type, instantiated with a `!Send` element type.

use std::marker::PhantomData;
use std::rc::Rc;

struct Probe<T: ?Sized>(PhantomData<T>);
trait Fallback {
    fn is_send(&self) -> bool {
        false
    }
}
impl<T: ?Sized> Fallback for Probe<T> {}
impl<T: ?Sized + Send> Probe<T> {
    fn is_send(&self) -> bool {
        true
    }
}

macro_rules! probe {
    ($out:ident, $t:ty) => {
        let p = Probe::<$t>(PhantomData);
        if p.is_send() {
            $out.push(format!("{} is Send", stringify!($t)));
        }
    };
}

type E = Rc<u8>;

/// The handle types that are `Send` although their element type is not. (`Sync` is not probed: a
/// stream that offers nothing through `&self` may be `Sync` for any element type — the boxed
/// receive future of the batched stream is, like tokio-util's `ReusableBoxFuture`.)
pub fn offending() -> Vec<String> {
    let mut out = Vec::new();
    // (sanity of the probe itself)
    assert!(Probe::<u8>(PhantomData).is_send() && !Probe::<E>(PhantomData).is_send());
    probe!(out, eyeball_im::ObservableVector<E>);
    probe!(out, eyeball_im::VectorSubscriber<E>);
    probe!(out, eyeball_im::VectorSubscriberStream<E>);
    probe!(out, eyeball_im::VectorSubscriberBatchedStream<E>);
    probe!(out, eyeball_im::VectorDiff<E>);
    probe!(out, eyeball::Observable<E>);
    probe!(out, eyeball::SharedObservable<E>);
    probe!(out, eyeball::Subscriber<E>);
    probe!(out, eyeball::Observable<E, eyeball::AsyncLock>);
    probe!(out, eyeball::SharedObservable<E, eyeball::AsyncLock>);
    probe!(out, eyeball::Subscriber<E, eyeball::AsyncLock>);
    out
}

//! Types shared by all worlds: violations, per-run outcome, counters.

use serde::{Deserialize, Serialize};
use std::collections::BTreeMap;

#[derive(Clone, Debug, Serialize, Deserialize, PartialEq, Eq)]
pub struct Violation {
    /// Properties whose statement this oracle checks.
    pub props: Vec<String>,
    /// Stable oracle name (minimisation keeps this fixed).
    pub oracle: String,
    /// Stage / tap index the oracle fired on (-1 when not applicable).
    pub stage: i32,
    /// Index of the step being executed when it fired.
    pub step: usize,
    pub detail: String,
}

impl Violation {
    pub fn concerns(&self, prop: &str) -> bool {
        self.props.iter().any(|p| p == prop)
    }
    /// Identity used by the minimiser: same oracle on the same stage.
    pub fn class(&self) -> (String, i32) {
        (self.oracle.clone(), self.stage)
    }
}

#[derive(Clone, Debug, Default, Serialize, Deserialize)]
pub struct Counters(pub BTreeMap<String, u64>);

impl Counters {
    pub fn inc(&mut self, k: &str) {
        self.add(k, 1);
    }
    pub fn add(&mut self, k: &str, n: u64) {
        if let Some(v) = self.0.get_mut(k) {
            *v += n;
        } else {
            self.0.insert(k.to_string(), n);
        }
    }
    pub fn get(&self, k: &str) -> u64 {
        self.0.get(k).copied().unwrap_or(0)
    }
    pub fn merge(&mut self, o: &Counters) {
        for (k, v) in &o.0 {
            self.add(k, *v);
        }
    }
}

#[derive(Clone, Debug, Default)]
pub struct Outcome {
    pub violation: Option<Violation>,
    /// Fault kinds fired, probes hit, op counts.
    pub counters: Counters,
    pub fingerprint: u64,
    /// Simulated time = scheduler steps executed (incl. implicit audit polls).
    pub steps: u64,
    pub nontrivial: bool,
}

pub fn props(ps: &[&str]) -> Vec<String> {
    ps.iter().map(|s| s.to_string()).collect()
}

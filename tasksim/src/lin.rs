//! The linearizability checker is shared with ThreadSim (one source file).
include!("../../threadsim/src/lin.rs");

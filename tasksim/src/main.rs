//! tasksim — task-level deterministic simulator for jplatte/eyeball (see /verif/DESIGN.md).

mod autotraits;
mod common;
mod lin;
mod obsworld;
mod rng;
mod runner;
mod track;
mod vecworld;
mod wake;

use runner::{digest_batch, evidence_json, minimise, run_batch, BatchCfg, Check, ReplayFile};
use std::cell::RefCell;
use std::time::Duration;

thread_local! {
    pub static LAST_PANIC_LOCATION: RefCell<String> = RefCell::new(String::new());
}

fn install_panic_hook() {
    std::panic::set_hook(Box::new(|info| {
        let loc = info.location().map(|l| format!("{}:{}", l.file(), l.line())).unwrap_or_default();
        let _ = LAST_PANIC_LOCATION.try_with(|l| {
            if let Ok(mut l) = l.try_borrow_mut() {
                *l = loc;
            }
        });
    }));
}

static ANNOUNCE: std::sync::atomic::AtomicBool = std::sync::atomic::AtomicBool::new(false);
const OBS_PROPS: &[&str] = &["C01", "C02", "C03", "C04", "C16", "C19"];
const VEC_PROPS: &[&str] = &["C05", "C06", "C07", "C08", "C09", "C10", "C11", "C12", "C13", "C14", "C15", "C17", "C20"];

struct Args {
    cmd: String,
    prop: String,
    tier: String,
    seed: u64,
    runs: Option<u64>,
    secs: Option<u64>,
    jobs: usize,
    file: Option<String>,
    evidence: bool,
    out_dir: String,
    kf_retire: bool,
    world: Option<String>,
}

fn parse_args() -> Args {
    let mut a = Args {
        cmd: String::new(),
        prop: String::new(),
        tier: std::env::var("VERIF_TIER").unwrap_or_else(|_| "quick".into()),
        seed: std::env::var("VERIF_SEED").ok().and_then(|s| s.parse().ok()).unwrap_or(1),
        runs: None,
        secs: None,
        jobs: std::env::var("VERIF_JOBS").ok().and_then(|s| s.parse().ok()).unwrap_or_else(|| std::thread::available_parallelism().map(|n| n.get()).unwrap_or(4)),
        file: None,
        evidence: true,
        out_dir: "/verif".into(),
        kf_retire: true,
        world: None,
    };
    let mut it = std::env::args().skip(1);
    a.cmd = it.next().unwrap_or_default();
    while let Some(x) = it.next() {
        match x.as_str() {
            "--tier" => a.tier = it.next().unwrap(),
            "--seed" => a.seed = it.next().unwrap().parse().unwrap(),
            "--runs" => a.runs = Some(it.next().unwrap().parse().unwrap()),
            "--secs" => a.secs = Some(it.next().unwrap().parse().unwrap()),
            "--jobs" => a.jobs = it.next().unwrap().parse().unwrap(),
            "--no-evidence" => a.evidence = false,
            "--no-kf-retire" => a.kf_retire = false,
            "--world" => a.world = Some(it.next().unwrap()),
            "--no-big" => vecworld::gen::NO_BIG.store(true, std::sync::atomic::Ordering::Relaxed),
            "--announce" => ANNOUNCE.store(true, std::sync::atomic::Ordering::Relaxed),
            "--out" => a.out_dir = it.next().unwrap(),
            s if a.cmd == "replay" && a.file.is_none() => a.file = Some(s.to_string()),
            s if a.cmd == "run-case" && !a.prop.is_empty() && a.file.is_none() => a.file = Some(s.to_string()),
            s if a.prop.is_empty() => a.prop = s.to_string(),
            s => {
                eprintln!("unexpected argument {s}");
                std::process::exit(2);
            }
        }
    }
    a
}

fn run_check<K: Check>(check: &K, a: &Args, level: &str, quick_runs: u64, thorough_secs: u64) -> (i32, Option<serde_json::Value>) {
    let (max_runs, time_limit) = match (a.runs, a.secs, a.tier.as_str()) {
        (Some(r), s, _) => (r, s.map(Duration::from_secs)),
        (None, Some(s), _) => (u64::MAX / 2, Some(Duration::from_secs(s))),
        (None, None, "thorough") => (u64::MAX / 2, Some(Duration::from_secs(thorough_secs))),
        _ => (quick_runs, None),
    };
    println!("tasksim check property={} world={} tier={} VERIF_SEED={} jobs={} max_runs={} time_limit={:?}", check.prop(), check.world(), a.tier, a.seed, a.jobs, max_runs, time_limit);
    let res = run_batch(check, &BatchCfg { seed: a.seed, max_runs, time_limit, jobs: a.jobs });
    println!("runs={} steps={} distinct={} distinct_nontrivial={} wall={:.2}s ({:.0} runs/s)", res.runs, res.steps, res.distinct, res.distinct_nontrivial, res.wall.as_secs_f64(), res.runs as f64 / res.wall.as_secs_f64().max(1e-9));
    for (k, v) in &res.counters.0 {
        if k.starts_with("fault.") || k.starts_with("retired.") {
            println!("  {k} = {v}");
        }
    }
    if let Some((run, v)) = &res.foreign_example {
        println!("note: {} run(s) hit an oracle of another property (first: run {} oracle {} props {:?}: {}); that property's own check reports it", res.foreign, run, v.oracle, v.props, v.detail);
    }
    let mut code = 0;
    let mut extra = serde_json::json!({});
    if let Some(f) = &res.found {
        println!("violation in run {} (seed {}): oracle={} stage={} step={} — {}", f.run, a.seed, f.violation.oracle, f.violation.stage, f.violation.step, f.violation.detail);
        let (case, v, evals) = minimise(check, &f.case, &f.violation);
        println!("minimised from {} to {} steps in {} evaluations: {}", check.len(&f.case), check.len(&case), evals, v.detail);
        let dir = format!("{}/replays", a.out_dir);
        let _ = std::fs::create_dir_all(&dir);
        let path = format!("{}/{}-{}-{}.json", dir, check.prop(), a.seed, f.run);
        let rf = ReplayFile { property: check.prop().to_string(), engine: "tasksim".into(), world: check.world().into(), seed: a.seed, run: f.run, original_steps: check.len(&f.case), minimiser_evaluations: evals, case, violation: v.clone() };
        std::fs::write(&path, serde_json::to_string_pretty(&rf).unwrap()).unwrap();
        // the minimised file must reproduce the violation in a fresh process
        let st = std::process::Command::new(std::env::current_exe().unwrap()).args(["replay", &path]).stdout(std::process::Stdio::null()).status();
        match st {
            Ok(s) if s.code() == Some(1) => {
                println!("VIOLATION property={} replay={}", check.prop(), path);
                code = 1;
            }
            other => {
                eprintln!("harness error: replay of {} in a fresh process did not reproduce the violation ({:?})", path, other);
                code = 2;
            }
        }
        extra = serde_json::json!({"violation": v, "replay": path});
    }
    let ev = if code != 2 { Some(evidence_json(check, &a.tier, level, a.seed, &res, if code == 1 { 1 } else { 0 }, extra)) } else { None };
    (code, ev)
}

fn write_evidence(a: &Args, prop: &str, ev: &serde_json::Value) {
    if !a.evidence {
        return;
    }
    let dir = format!("{}/evidence", a.out_dir);
    let _ = std::fs::create_dir_all(&dir);
    std::fs::write(format!("{}/{}.json", dir, prop), serde_json::to_string_pretty(ev).unwrap()).unwrap();
}

/// One property decided by several run families (worlds): evaluations and distinct counts are sums.
fn merge_evidence(parts: Vec<(&str, serde_json::Value)>) -> serde_json::Value {
    let mut it = parts.into_iter();
    let (n0, mut base) = it.next().unwrap();
    let mut worlds = serde_json::Map::new();
    let strip = |c: &serde_json::Value| {
        let mut c = c.clone();
        if let Some(o) = c.as_object_mut() {
            o.remove("rule");
            o.remove("samples");
        }
        c
    };
    worlds.insert(n0.to_string(), strip(&base["coverage"]));
    for (name, ev) in it {
        let (cb, ce) = (base["coverage"].clone(), ev["coverage"].clone());
        base["coverage"]["evaluations"] = serde_json::json!(cb["evaluations"].as_u64().unwrap_or(0) + ce["evaluations"].as_u64().unwrap_or(0));
        base["coverage"]["distinct_nontrivial"] = serde_json::json!(cb["distinct_nontrivial"].as_u64().unwrap_or(0) + ce["distinct_nontrivial"].as_u64().unwrap_or(0));
        let mut s = cb["samples"].as_array().cloned().unwrap_or_default();
        s.truncate(2);
        s.extend(ce["samples"].as_array().cloned().unwrap_or_default().into_iter().take(2));
        base["coverage"]["samples"] = serde_json::json!(s);
        base["wall_s"] = serde_json::json!(base["wall_s"].as_f64().unwrap_or(0.0) + ev["wall_s"].as_f64().unwrap_or(0.0));
        base["violations"] = serde_json::json!(base["violations"].as_u64().unwrap_or(0) + ev["violations"].as_u64().unwrap_or(0));
        worlds.insert(name.to_string(), strip(&ce));
    }
    base["coverage"]["per_world"] = serde_json::Value::Object(worlds);
    base["coverage"]["rule"] = serde_json::json!(format!("{} Several run families decide this property; the top-level counts are sums over them, per_world has each family's own counters.", base["coverage"]["rule"].as_str().unwrap_or("")));
    base
}

fn report_known_findings(a: &Args) -> Result<(), String> {
    // next to the engines (…/tasksim/target/release/tasksim -> …/known_findings.json), not in --out
    let root = std::env::current_exe().ok().and_then(|e| e.ancestors().nth(4).map(|p| p.to_path_buf())).unwrap_or_else(|| a.out_dir.clone().into());
    let path = format!("{}/known_findings.json", root.display());
    let Ok(text) = std::fs::read_to_string(&path) else { return Ok(()) };
    let doc: serde_json::Value = serde_json::from_str(&text).map_err(|e| format!("{path}: {e}"))?;
    for f in doc["findings"].as_array().cloned().unwrap_or_default() {
        if f["status"] != "known" || !f["properties"].as_array().map_or(false, |p| p.iter().any(|x| x == a.prop.as_str())) {
            continue;
        }
        let id = f["id"].as_str().unwrap_or("?");
        let fails = match f["world"].as_str() {
            Some("vector") => {
                let mut case: vecworld::steps::Case = serde_json::from_value(f["scenario"].clone()).map_err(|e| format!("{path}: scenario of {id}: {e}"))?;
                case.config.kf_retire = false;
                let out = vecworld::exec::run_case(&case).outcome;
                out.violation.map_or(false, |v| f["expect_oracles"].as_array().map_or(false, |o| o.iter().any(|x| x == v.oracle.as_str())))
            }
            Some("async-contention") => {
                let case: obsworld::asyncsim::ACase = serde_json::from_value(f["scenario"].clone()).map_err(|e| format!("{path}: scenario of {id}: {e}"))?;
                let out = obsworld::asyncsim::run_async_case(&case);
                out.violation.map_or(false, |v| f["expect_oracles"].as_array().map_or(false, |o| o.iter().any(|x| x == v.oracle.as_str())))
            }
            _ => false,
        };
        if fails {
            println!("KNOWN-FINDING: property={} {}: {}", a.prop, id, f["what"].as_str().unwrap_or(""));
        } else {
            println!("note: known finding {id} no longer reproduces on its recorded scenario (its trigger still retires consumers; update known_findings.json)");
        }
    }
    Ok(())
}

fn replay(a: &Args) -> i32 {
    let path = a.file.clone().unwrap_or_default();
    let text = match std::fs::read_to_string(&path) {
        Ok(t) => t,
        Err(e) => {
            eprintln!("cannot read {path}: {e}");
            return 2;
        }
    };
    let head: serde_json::Value = serde_json::from_str(&text).unwrap();
    let world = head["world"].as_str().unwrap_or("");
    match world {
        "vector" => {
            let rf: ReplayFile<vecworld::steps::Case> = serde_json::from_str(&text).unwrap();
            let check = vecworld::check::VecCheck { prop: rf.property.clone(), kf_retire: true };
            replay_with(&check, &rf, &path)
        }
        "vector-tx-enumeration" => {
            let rf: ReplayFile<vecworld::steps::Case> = serde_json::from_str(&text).unwrap();
            replay_with(&vecworld::txenum::TxEnumCheck, &rf, &path)
        }
        "observable" => {
            let rf: ReplayFile<obsworld::steps::Case> = serde_json::from_str(&text).unwrap();
            let check = obsworld::check::ObsCheck { prop: rf.property.clone() };
            replay_with(&check, &rf, &path)
        }
        "async-contention" => {
            let rf: ReplayFile<obsworld::asyncsim::ACase> = serde_json::from_str(&text).unwrap();
            replay_with(&obsworld::acheck::AsyncCheck, &rf, &path)
        }
        "static-autotraits" => {
            let bad = autotraits::offending();
            if bad.is_empty() {
                println!("replay did not reproduce the recorded violation (property holds)");
                0
            } else {
                println!("replay reproduced: {}", bad.join("; "));
                println!("VIOLATION property=C20 replay={}", path);
                1
            }
        }
        w => {
            eprintln!("unknown world {w}");
            2
        }
    }
}

fn replay_with<K: Check>(check: &K, rf: &ReplayFile<K::Case>, path: &str) -> i32 {
    let out = check.exec(&rf.case);
    match out.violation {
        Some(v) if v == rf.violation => {
            println!("replay reproduced exactly: oracle={} stage={} step={} — {}", v.oracle, v.stage, v.step, v.detail);
            println!("VIOLATION property={} replay={}", rf.property, path);
            1
        }
        Some(v) => {
            println!("replay produced a different violation: {:?} (recorded: {:?})", v, rf.violation);
            if v.class() == rf.violation.class() {
                println!("VIOLATION property={} replay={}", rf.property, path);
                1
            } else {
                3
            }
        }
        None => {
            println!("replay did not reproduce the recorded violation (property holds on this run)");
            0
        }
    }
}

fn main() {
    install_panic_hook();
    let a = parse_args();
    let code = match a.cmd.as_str() {
        "check" => {
            if let Err(e) = report_known_findings(&a) {
                eprintln!("harness error: {e}");
                std::process::exit(2);
            }
            let half = |a: &Args| -> Args {
                // two run families share the budget
                Args { cmd: a.cmd.clone(), prop: a.prop.clone(), tier: a.tier.clone(), seed: a.seed, runs: a.runs.map(|r| r / 2), secs: a.secs.map(|s| (s / 2).max(1)), jobs: a.jobs, file: None, evidence: a.evidence, out_dir: a.out_dir.clone(), kf_retire: a.kf_retire, world: None }
            };
            match a.prop.as_str() {
                "C16" => {
                    let h = half(&a);
                    let (c1, e1) = run_check(&obsworld::check::ObsCheck { prop: "C16".into() }, &h, "exploration", 1_000_000, 120);
                    let (c2, e2) = if c1 == 0 { run_check(&obsworld::acheck::AsyncCheck, &h, "exploration", 1_000_000, 120) } else { (0, None) };
                    let parts: Vec<(&str, serde_json::Value)> = [("differential (same histories as the sync flavour)", e1), ("contention (tasks, held guards, cancellation)", e2)].into_iter().filter_map(|(n, e)| e.map(|e| (n, e))).collect();
                    if !parts.is_empty() && c1.max(c2) != 2 {
                        write_evidence(&a, "C16", &merge_evidence(parts));
                    }
                    c1.max(c2)
                }
                "C07" => {
                    let h = half(&a);
                    let (c1, e1) = run_check(&vecworld::check::VecCheck { prop: "C07".into(), kf_retire: a.kf_retire }, &h, "fault_enumeration", 1_000_000, 120);
                    let (c2, e2) = if c1 == 0 { run_check(&vecworld::txenum::TxEnumCheck, &h, "fault_enumeration", 60_000, 120) } else { (0, None) };
                    let parts: Vec<(&str, serde_json::Value)> = [("seeded histories with the abandonment point placed by the generator", e1), ("every abandonment point of each sampled transaction body, with twin runs", e2)].into_iter().filter_map(|(n, e)| e.map(|e| (n, e))).collect();
                    if !parts.is_empty() && c1.max(c2) != 2 {
                        write_evidence(&a, "C07", &merge_evidence(parts));
                    }
                    c1.max(c2)
                }
                "C20" if !autotraits::offending().is_empty() => {
                    let bad = autotraits::offending();
                    println!("violation (static): with an element type that is neither Send nor Sync: {}", bad.join("; "));
                    let dir = format!("{}/replays", a.out_dir);
                    let _ = std::fs::create_dir_all(&dir);
                    let path = format!("{dir}/C20-autotraits.json");
                    let doc = serde_json::json!({"property": "C20", "engine": "tasksim", "world": "static-autotraits", "violation": {"oracle": "non_send_value_can_cross_threads", "detail": bad}});
                    std::fs::write(&path, serde_json::to_string_pretty(&doc).unwrap()).unwrap();
                    println!("VIOLATION property=C20 replay={path}");
                    1
                }
                "C20" => {
                    let h = half(&a);
                    let (c1, e1) = run_check(&vecworld::check::VecCheck { prop: "C20".into(), kf_retire: a.kf_retire }, &h, "exploration", 3_000_000, 120);
                    let (c2, e2) = if c1 == 0 { run_check(&obsworld::check::ObsCheck { prop: "C20".into() }, &h, "exploration", 1_000_000, 120) } else { (0, None) };
                    let parts: Vec<(&str, serde_json::Value)> = [("vector world", e1), ("observable world (both lock flavours)", e2)].into_iter().filter_map(|(n, e)| e.map(|e| (n, e))).collect();
                    if !parts.is_empty() && c1.max(c2) != 2 {
                        write_evidence(&a, "C20", &merge_evidence(parts));
                    }
                    c1.max(c2)
                }
                p if VEC_PROPS.contains(&p) => {
                    let check = vecworld::check::VecCheck { prop: a.prop.clone(), kf_retire: a.kf_retire };
                    let (c, e) = run_check(&check, &a, "exploration", 2_000_000, 240);
                    if let Some(e) = e {
                        write_evidence(&a, p, &e);
                    }
                    c
                }
                p if OBS_PROPS.contains(&p) => {
                    let check = obsworld::check::ObsCheck { prop: a.prop.clone() };
                    let (c, e) = run_check(&check, &a, "exploration", 2_000_000, 240);
                    if let Some(e) = e {
                        write_evidence(&a, p, &e);
                    }
                    c
                }
                _ => {
                    eprintln!("unknown property {}", a.prop);
                    2
                }
            }
        }
        "replay" => replay(&a),
        "digest" => {
            // tasksim digest <FAMILY> --seed S --runs N --jobs J: determinism self-test support
            let runs = a.runs.unwrap_or(20_000);
            let d = match a.prop.as_str() {
                "C07enum" => digest_batch(&vecworld::txenum::TxEnumCheck, a.seed, runs / 20, a.jobs),
                "C16async" => digest_batch(&obsworld::acheck::AsyncCheck, a.seed, runs, a.jobs),
                p if VEC_PROPS.contains(&p) => digest_batch(&vecworld::check::VecCheck { prop: p.into(), kf_retire: true }, a.seed, runs, a.jobs),
                p if OBS_PROPS.contains(&p) => digest_batch(&obsworld::check::ObsCheck { prop: p.into() }, a.seed, runs, a.jobs),
                p => {
                    eprintln!("unknown family {p}");
                    std::process::exit(2);
                }
            };
            println!("{:016x}", d);
            0
        }
        "seq-runs" => {
            // Runs N generated cases sequentially on the main thread (no worker threads): the form
            // used under Miri (`cargo +nightly miri run -- seq-runs C20 --runs N`), where undefined
            // behaviour in the library's unsafe code aborts the interpreter.
            let runs = a.runs.unwrap_or(100);
            let first = a.secs.unwrap_or(0); // --secs doubles as the first run index here
            let mut bad = 0;
            for run in first..first + runs {
                if ANNOUNCE.load(std::sync::atomic::Ordering::Relaxed) {
                    eprintln!("run {run}");
                }
                let world = a.world.clone().unwrap_or_default();
                let v = match a.prop.as_str() {
                    "C07" if world == "vector-tx-enumeration" => {
                        let c = vecworld::txenum::TxEnumCheck;
                        let mut rng = rng::Rng::for_run(a.seed, c.domain(), run);
                        c.exec(&c.gen(&mut rng)).violation
                    }
                    p if world == "observable" && (OBS_PROPS.contains(&p) || p == "C20") => {
                        let c = obsworld::check::ObsCheck { prop: p.into() };
                        let mut rng = rng::Rng::for_run(a.seed, c.domain(), run);
                        c.exec(&c.gen(&mut rng)).violation
                    }
                    _ if world == "async-contention" => {
                        let c = obsworld::acheck::AsyncCheck;
                        let mut rng = rng::Rng::for_run(a.seed, c.domain(), run);
                        c.exec(&c.gen(&mut rng)).violation
                    }
                    p if VEC_PROPS.contains(&p) => {
                        let c = vecworld::check::VecCheck { prop: p.into(), kf_retire: true };
                        let mut rng = rng::Rng::for_run(a.seed, c.domain(), run);
                        c.exec(&c.gen(&mut rng)).violation
                    }
                    p if OBS_PROPS.contains(&p) => {
                        let c = obsworld::check::ObsCheck { prop: p.into() };
                        let mut rng = rng::Rng::for_run(a.seed, c.domain(), run);
                        c.exec(&c.gen(&mut rng)).violation
                    }
                    _ => {
                        let c = obsworld::acheck::AsyncCheck;
                        let mut rng = rng::Rng::for_run(a.seed, c.domain(), run);
                        c.exec(&c.gen(&mut rng)).violation
                    }
                };
                if let Some(v) = v {
                    println!("run {run}: {:?}", v);
                    bad += 1;
                }
            }
            println!("seq-runs {} runs={} violations={}", a.prop, runs, bad);
            (bad > 0) as i32
        }
        "run-case" => {
            // debugging aid: tasksim run-case <world> <case.json>
            let text = std::fs::read_to_string(a.file.clone().unwrap_or_default()).unwrap_or_default();
            let out = match a.prop.as_str() {
                "vector" => vecworld::exec::run_case(&serde_json::from_str(&text).unwrap()).outcome,
                "observable" => obsworld::exec::run_case(&serde_json::from_str(&text).unwrap()),
                _ => obsworld::asyncsim::run_async_case(&serde_json::from_str(&text).unwrap()),
            };
            println!("{:?}", out.violation);
            println!("{:?}", out.counters);
            0
        }
        _ => {
            eprintln!("usage: tasksim check <PROP> [--tier quick|thorough] [--seed N] [--runs N] [--secs N] [--jobs N] | tasksim replay <file>");
            2
        }
    };
    std::process::exit(code);
}

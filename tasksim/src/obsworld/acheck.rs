//! `Check` implementation for the async-flavour contention simulator (second half of C16).

use super::asyncsim::*;
use crate::common::Outcome;
use crate::rng::Rng;
use crate::runner::Check;

pub struct AsyncCheck;

impl Check for AsyncCheck {
    type Case = ACase;
    fn prop(&self) -> &str {
        "C16"
    }
    fn world(&self) -> &'static str {
        "async-contention"
    }
    fn domain(&self) -> u64 {
        3016
    }
    fn gen(&self, rng: &mut Rng) -> ACase {
        gen_async_case(rng)
    }
    fn exec(&self, case: &ACase) -> Outcome {
        run_async_case(case)
    }
    fn len(&self, case: &ACase) -> usize {
        case.steps.len()
    }
    fn remove_range(&self, case: &ACase, from: usize, to: usize) -> ACase {
        let mut c = case.clone();
        c.steps.drain(from..to);
        c
    }
    fn simplifications(&self, case: &ACase) -> Vec<ACase> {
        let mut out = Vec::new();
        // fewer tasks (never the unique owner), fewer ops, shorter holds
        for t in 0..case.tasks.len() {
            if case.tasks.len() > 1 && !(case.unique && t == 0) {
                let mut c = case.clone();
                c.tasks.remove(t);
                out.push(c);
            }
            for k in 0..case.tasks[t].ops.len() {
                let mut c = case.clone();
                c.tasks[t].ops.remove(k);
                out.push(c);
                let simpler = match &case.tasks[t].ops[k] {
                    AOp::ReadHold(n) if *n > 0 => Some(AOp::ReadHold(n - 1)),
                    AOp::WriteHold(n, x) if *n > 0 => Some(AOp::WriteHold(n - 1, *x)),
                    AOp::WriteHoldNoop(n, c) if *n > 0 => Some(AOp::WriteHoldNoop(n - 1, *c)),
                    AOp::WriteHoldNoop(0, true) => Some(AOp::WriteHoldNoop(0, false)),
                    AOp::NextRefHold(n) if *n > 0 => Some(AOp::NextRefHold(n - 1)),
                    AOp::NextRefHold(0) => Some(AOp::Next),
                    AOp::NextCancel(n) if *n > 1 => Some(AOp::NextCancel(n - 1)),
                    AOp::SetIfNotEq(v) => Some(AOp::Set(*v)),
                    AOp::UpdateIf(x, _) => Some(AOp::Update(*x)),
                    AOp::Take => Some(AOp::Set(7)),
                    AOp::SidePollThenNextNow => Some(AOp::NextNow),
                    _ => None,
                };
                if let Some(s) = simpler {
                    let mut c = case.clone();
                    c.tasks[t].ops[k] = s;
                    out.push(c);
                }
            }
            if case.tasks[t].sub == Some(true) {
                let mut c = case.clone();
                c.tasks[t].sub = Some(false);
                out.push(c);
            }
        }
        if case.unique {
            let mut c = case.clone();
            c.unique = false;
            out.push(c);
        }
        if case.same_waker {
            let mut c = case.clone();
            c.same_waker = false;
            out.push(c);
        }
        if case.main_owner {
            let mut c = case.clone();
            c.main_owner = false;
            out.push(c);
        }
        for (i, s) in case.steps.iter().enumerate() {
            let simpler = match s {
                AStep::Run(k) if *k > 0 => Some(AStep::Run(0)),
                AStep::Poll(k) if *k > 0 => Some(AStep::Poll(k - 1)),
                AStep::Cancel(k) => Some(AStep::Poll(*k)),
                _ => None,
            };
            if let Some(t) = simpler {
                let mut c = case.clone();
                c.steps[i] = t;
                out.push(c);
            }
        }
        out
    }
}

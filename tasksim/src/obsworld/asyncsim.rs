//! Async-lock flavour under contention (C16, DESIGN.md §5 C16 (2)): writer, reader and subscriber
//! tasks are async blocks over real `SharedObservable<_, AsyncLock>` / `Observable<_, AsyncLock>` /
//! `Subscriber<_, AsyncLock>`; the simulator is their executor and decides who is polled next,
//! how long guards are held (F9), which pending `next()` is cancelled, and polls spuriously.
//! Oracles: task-level linearizability of the completed calls (+ "is pending" observations at
//! quiescent points), no progress without a wake, nobody stuck at the final quiescence.

use crate::common::{props, Counters, Outcome, Violation};
use crate::lin::{check as lin_check, upd, Event, HOp, PollR, Res, Spec};
use crate::rng::{Fingerprint, Rng};
use crate::wake::{self, Flag};
use eyeball::{AsyncLock, Observable, ObservableWriteGuard, SharedObservable, Subscriber};
use serde::{Deserialize, Serialize};
use std::cell::{Cell, RefCell};
use std::future::{poll_fn, Future};
use std::panic::{catch_unwind, AssertUnwindSafe};
use std::pin::{pin, Pin};
use std::rc::Rc;
use std::sync::Arc;
use std::task::{Context, Poll};

#[derive(Clone, Debug, Serialize, Deserialize, PartialEq, Eq)]
pub enum AOp {
    Set(u64),
    SetIfNotEq(u64),
    Take,
    Update(u64),
    UpdateIf(u64, bool),
    Get,
    /// read guard held across k scheduler steps
    ReadHold(u8),
    /// write guard held across k scheduler steps, then set(upd(read, t))
    WriteHold(u8, u64),
    /// write guard held across k scheduler steps and released without having written anything
    /// (`.1`: a `set_if_not_eq` of the value it read goes through the guard first — stores nothing,
    /// notifies nobody)
    WriteHoldNoop(u8, bool),
    Subscribe { reset: bool },
    Next,
    /// poll a `next()` future up to k times, drop it (cancellation), then await a fresh `next()`
    NextCancel(u8),
    /// `next_ref()` and keep its read guard across k scheduler steps
    NextRefHold(u8),
    NextNow,
    /// poll a `next()` future once with a waker of its own (not the task's) and drop it; if that
    /// poll was Pending, take the value with `next_now()`. By C02 (which C16 extends to this
    /// flavour) the waker given to a Pending poll is woken by the next notifying update, whatever
    /// other subscriber methods are called afterwards.
    SidePollThenNextNow,
    SubGet,
    /// continue with a clone of the subscriber and drop the original (with its prepared, possibly
    /// queued, lock acquisition: a cancelled acquisition)
    CloneSub { reset: bool },
    Yield,
    DropOwner,
}

#[derive(Clone, Debug, Serialize, Deserialize, PartialEq, Eq)]
pub enum AStep {
    /// poll the k-th runnable task
    Run(usize),
    /// poll task i whatever its state (spurious poll if it is not woken)
    Poll(usize),
    /// drop task i's future wherever it is suspended
    Cancel(usize),
    Settle,
}

#[derive(Clone, Debug, Serialize, Deserialize, PartialEq, Eq)]
pub struct TaskSpec {
    pub sub: Option<bool>,
    pub ops: Vec<AOp>,
}

#[derive(Clone, Debug, Serialize, Deserialize, PartialEq, Eq)]
pub struct ACase {
    /// the harness keeps one owner handle until every task is quiescent (so that a subscriber that
    /// is wrongly left pending is observed as pending, not rescued by the end of the stream)
    #[serde(default)]
    pub main_owner: bool,
    /// every task is polled with its one waker (as an executor does) instead of a fresh one per poll
    #[serde(default)]
    pub same_waker: bool,
    /// Known finding KF-D11 (never set by the generator, only by the recorded scenario): after
    /// `SidePollThenNextNow` the task keeps the subscriber whose prepared lock acquisition was
    /// polled once and never again — the read permit granted to it when the writer releases stays
    /// parked and blocks every writer (and, behind them, the subscriber's own later reads).
    /// Generated cases go on with a clone of the subscriber instead (dropping the original releases
    /// the acquisition).
    #[serde(default)]
    pub kf_d11_keep_parked_acquisition: bool,
    pub unique: bool,
    pub initial: u64,
    pub tasks: Vec<TaskSpec>,
    pub steps: Vec<AStep>,
}

struct Sh {
    seq: Cell<u64>,
    next_sub: Cell<usize>,
    next_drop: Cell<u32>,
    hist: RefCell<Vec<Event>>,
    /// per task: (what it is doing, subscriber id if it is a blocking next)
    cur: RefCell<Vec<Option<(String, Option<usize>)>>>,
    violation: RefCell<Option<(String, String)>>,
    held: Cell<u32>,
    /// notifying updates performed so far
    updates: Cell<u64>,
    kf_d11_keep: bool,
}

impl Sh {
    fn stamp(&self) -> u64 {
        let s = self.seq.get();
        self.seq.set(s + 1);
        s
    }
    fn rec(&self, tid: usize, op: HOp, inv: u64, res: Res) {
        let ret = self.stamp();
        let notifying = match (&op, &res) {
            (HOp::Set(_), _) | (HOp::Take, _) | (HOp::Update(_), _) | (HOp::Rmw(_), _) | (HOp::UpdateIf(_, true), _) => true,
            (HOp::SetIfNotEq(_), Res::Opt(Some(_))) => true,
            _ => false,
        };
        if notifying {
            self.updates.set(self.updates.get() + 1);
        }
        if std::env::var_os("TASKSIM_TRACE").is_some() {
            eprintln!("  t{tid} {:?} -> {:?} [{inv}..{ret}]", op, res);
        }
        self.hist.borrow_mut().push(Event { tid, op, inv, ret, res });
    }
    fn rec_drop(&self, tid: usize, inv: u64) {
        let ret = self.stamp();
        let k = self.next_drop.get();
        self.next_drop.set(k + 1);
        let mut h = self.hist.borrow_mut();
        h.push(Event { tid, op: HOp::Release(k), inv, ret, res: Res::Unit });
        h.push(Event { tid, op: HOp::Finish(k), inv, ret, res: Res::Unit });
    }
    fn doing(&self, tid: usize, what: &str, sub: Option<usize>) {
        self.cur.borrow_mut()[tid] = Some((what.to_string(), sub));
    }
    fn violate(&self, oracle: &str, detail: String) {
        let mut v = self.violation.borrow_mut();
        if v.is_none() {
            *v = Some((oracle.to_string(), detail));
        }
    }
}

/// Pending once, self-woken: the task stays runnable, the scheduler decides when it continues.
struct YieldNow(bool);
impl Future for YieldNow {
    type Output = ();
    fn poll(mut self: Pin<&mut Self>, cx: &mut Context<'_>) -> Poll<()> {
        if self.0 {
            Poll::Ready(())
        } else {
            self.0 = true;
            cx.waker().wake_by_ref();
            Poll::Pending
        }
    }
}

enum Owner {
    Unique(Observable<u64, AsyncLock>),
    Shared(SharedObservable<u64, AsyncLock>),
}

async fn run_task(tid: usize, ops: Vec<AOp>, mut owner: Option<Owner>, mut sub: Option<(usize, Subscriber<u64, AsyncLock>)>, sh: Rc<Sh>) {
    for op in ops {
        if matches!(op, AOp::Next | AOp::NextCancel(_) | AOp::NextRefHold(_)) {
            // a task that waits for updates must not be an owner itself, or it would wait for itself
            if let Some(o) = owner.take() {
                let inv = sh.stamp();
                drop(o);
                sh.rec_drop(tid, inv);
            }
        }
        let inv = sh.stamp();
        sh.doing(tid, &format!("{:?}", op), None);
        match op {
            AOp::Set(v) => match owner.as_mut() {
                Some(Owner::Unique(u)) => {
                    let p = Observable::set_async(u, v).await;
                    sh.rec(tid, HOp::Set(v), inv, Res::Val(p));
                }
                Some(Owner::Shared(s)) => {
                    let p = s.set(v).await;
                    sh.rec(tid, HOp::Set(v), inv, Res::Val(p));
                }
                None => {}
            },
            AOp::SetIfNotEq(v) => match owner.as_mut() {
                Some(Owner::Unique(u)) => {
                    let p = Observable::set_if_not_eq_async(u, v).await;
                    sh.rec(tid, HOp::SetIfNotEq(v), inv, Res::Opt(p));
                }
                Some(Owner::Shared(s)) => {
                    let p = s.set_if_not_eq(v).await;
                    sh.rec(tid, HOp::SetIfNotEq(v), inv, Res::Opt(p));
                }
                None => {}
            },
            AOp::Take => match owner.as_mut() {
                Some(Owner::Unique(u)) => {
                    let p = Observable::take_async(u).await;
                    sh.rec(tid, HOp::Take, inv, Res::Val(p));
                }
                Some(Owner::Shared(s)) => {
                    let p = s.take().await;
                    sh.rec(tid, HOp::Take, inv, Res::Val(p));
                }
                None => {}
            },
            AOp::Update(t) => match owner.as_mut() {
                Some(Owner::Unique(u)) => {
                    Observable::update_async(u, |v| *v = upd(*v, t)).await;
                    sh.rec(tid, HOp::Update(t), inv, Res::Unit);
                }
                Some(Owner::Shared(s)) => {
                    s.update(|v| *v = upd(*v, t)).await;
                    sh.rec(tid, HOp::Update(t), inv, Res::Unit);
                }
                None => {}
            },
            AOp::UpdateIf(t, n) => match owner.as_mut() {
                Some(Owner::Unique(u)) => {
                    Observable::update_if_async(u, |v| {
                        *v = upd(*v, t);
                        n
                    })
                    .await;
                    sh.rec(tid, HOp::UpdateIf(t, n), inv, Res::Unit);
                }
                Some(Owner::Shared(s)) => {
                    s.update_if(|v| {
                        *v = upd(*v, t);
                        n
                    })
                    .await;
                    sh.rec(tid, HOp::UpdateIf(t, n), inv, Res::Unit);
                }
                None => {}
            },
            AOp::Get => match owner.as_ref() {
                Some(Owner::Unique(u)) => {
                    let v = *Observable::get_async(u);
                    sh.rec(tid, HOp::Read, inv, Res::Val(v));
                }
                Some(Owner::Shared(s)) => {
                    let v = s.get().await;
                    sh.rec(tid, HOp::Read, inv, Res::Val(v));
                }
                None => {}
            },
            AOp::ReadHold(k) => {
                if let Some(Owner::Shared(s)) = owner.as_ref() {
                    let g = s.read().await;
                    sh.held.set(sh.held.get() + 1);
                    let a = *g;
                    if s.try_write().is_some() {
                        sh.violate("guard_exclusion", "try_write succeeded while a read guard is alive".into());
                    }
                    for _ in 0..k {
                        YieldNow(false).await;
                    }
                    let b = *g;
                    drop(g);
                    sh.held.set(sh.held.get() - 1);
                    if a != b {
                        sh.violate("guard_exclusion", format!("the value changed from {a} to {b} while a read guard was alive"));
                    }
                    sh.rec(tid, HOp::Read, inv, Res::Val(a));
                }
            }
            AOp::WriteHold(k, t) => {
                if let Some(Owner::Shared(s)) = owner.as_ref() {
                    let mut g = s.write().await;
                    sh.held.set(sh.held.get() + 1);
                    let a = *g;
                    if s.try_read().is_some() || s.try_write().is_some() {
                        sh.violate("guard_exclusion", "try_read / try_write succeeded while a write guard is alive".into());
                    }
                    for _ in 0..k {
                        YieldNow(false).await;
                    }
                    let p = ObservableWriteGuard::set(&mut g, upd(a, t));
                    drop(g);
                    sh.held.set(sh.held.get() - 1);
                    if a != p {
                        sh.violate("guard_exclusion", format!("a write guard read {a} but its set returned {p} as the previous value"));
                    }
                    sh.rec(tid, HOp::Rmw(t), inv, Res::Val(a));
                }
            }
            AOp::WriteHoldNoop(k, cond) => {
                if let Some(Owner::Shared(s)) = owner.as_ref() {
                    let mut g = s.write().await;
                    sh.held.set(sh.held.get() + 1);
                    let a = *g;
                    if cond {
                        if let Some(p) = ObservableWriteGuard::set_if_not_eq(&mut g, a) {
                            sh.violate("guard_exclusion", format!("set_if_not_eq({a}) through a write guard that shows {a} replaced {p}"));
                        }
                    }
                    for _ in 0..k {
                        YieldNow(false).await;
                    }
                    let b = *g;
                    drop(g);
                    sh.held.set(sh.held.get() - 1);
                    if a != b {
                        sh.violate("guard_exclusion", format!("the value changed from {a} to {b} under a write guard that wrote nothing"));
                    }
                    sh.rec(tid, HOp::Read, inv, Res::Val(a));
                }
            }
            AOp::Subscribe { reset } => {
                if sub.is_none() && owner.is_some() {
                    // the id is taken before the (possibly suspending) call: two tasks may be
                    // subscribing at the same time
                    let id = sh.next_sub.get();
                    sh.next_sub.set(id + 1);
                    let s = match owner.as_ref() {
                        Some(Owner::Unique(u)) => Some(if reset { Observable::subscribe_reset_async(u) } else { Observable::subscribe_async(u) }),
                        Some(Owner::Shared(s)) => Some(if reset { s.subscribe_reset() } else { s.subscribe().await }),
                        None => None,
                    };
                    if let Some(s) = s {
                        sub = Some((id, s));
                        sh.rec(tid, HOp::Subscribe { id, reset }, inv, Res::Unit);
                    }
                }
            }
            AOp::Next => {
                if let Some((id, s)) = sub.as_mut() {
                    sh.doing(tid, "Next", Some(*id));
                    let r = s.next().await;
                    sh.rec(tid, HOp::Next(*id), inv, Res::Poll(r.map_or(PollR::End, PollR::Some)));
                }
            }
            AOp::NextCancel(k) => {
                if let Some((id, s)) = sub.as_mut() {
                    let mut done = false;
                    {
                        let mut fut = pin!(s.next());
                        for _ in 0..k {
                            let r = poll_fn(|cx| Poll::Ready(fut.as_mut().poll(cx))).await;
                            if let Poll::Ready(r) = r {
                                sh.rec(tid, HOp::Next(*id), inv, Res::Poll(r.map_or(PollR::End, PollR::Some)));
                                done = true;
                                break;
                            }
                            YieldNow(false).await;
                        }
                        // `fut` is dropped here: a cancelled call, it has no result
                    }
                    if !done {
                        let inv2 = sh.stamp();
                        sh.doing(tid, "Next (after a cancelled next)", Some(*id));
                        let r = s.next().await;
                        sh.rec(tid, HOp::Next(*id), inv2, Res::Poll(r.map_or(PollR::End, PollR::Some)));
                    }
                }
            }
            AOp::NextRefHold(k) => {
                if let Some((id, s)) = sub.as_mut() {
                    sh.doing(tid, "NextRef", Some(*id));
                    let g = s.next_ref().await;
                    match g {
                        Some(g) => {
                            sh.held.set(sh.held.get() + 1);
                            let a = *g;
                            // the call has returned; its guard stays alive for k more steps
                            sh.rec(tid, HOp::Next(*id), inv, Res::Poll(PollR::Some(a)));
                            for _ in 0..k {
                                YieldNow(false).await;
                            }
                            let b = *g;
                            drop(g);
                            sh.held.set(sh.held.get() - 1);
                            if a != b {
                                sh.violate("guard_exclusion", format!("the value changed from {a} to {b} under the guard returned by next_ref()"));
                            }
                        }
                        None => sh.rec(tid, HOp::Next(*id), inv, Res::Poll(PollR::End)),
                    }
                }
            }
            AOp::NextNow => {
                if let Some((id, s)) = sub.as_mut() {
                    let v = s.next_now().await;
                    sh.rec(tid, HOp::NextNow(*id), inv, Res::Val(v));
                }
            }
            AOp::SidePollThenNextNow => {
                if let Some((id, mut s)) = sub.take() {
                    let (flag, wk) = wake::fresh();
                    let c0 = sh.updates.get();
                    let first = {
                        let mut fut = pin!(s.next());
                        let mut cx = Context::from_waker(&wk);
                        fut.as_mut().poll(&mut cx)
                        // the future is dropped here (a cancelled call if it was Pending)
                    };
                    match first {
                        Poll::Ready(r) => {
                            sh.rec(tid, HOp::Next(id), inv, Res::Poll(r.map_or(PollR::End, PollR::Some)));
                            sub = Some((id, s));
                        }
                        Poll::Pending => {
                            let inv2 = sh.stamp();
                            sh.doing(tid, "NextNow (after a Pending poll with another waker)", None);
                            let v = s.next_now().await;
                            sh.rec(tid, HOp::NextNow(id), inv2, Res::Val(v));
                            if sh.updates.get() > c0 && !flag.is_woken() {
                                sh.violate("pending_poll_waker_never_woken", format!("subscriber {id}: a poll of next() returned Pending, a notifying update followed, next_now() returned {v}, but the waker given to the Pending poll was never woken"));
                            }
                            if sh.kf_d11_keep {
                                sub = Some((id, s));
                            } else {
                                // known finding KF-D11: the prepared acquisition may now hold a read
                                // permit that nothing will ever use; go on with a clone
                                let inv3 = sh.stamp();
                                let id2 = sh.next_sub.get();
                                sh.next_sub.set(id2 + 1);
                                let c = s.clone();
                                drop(s);
                                sub = Some((id2, c));
                                sh.rec(tid, HOp::SubClone { from: id, id: id2 }, inv3, Res::Unit);
                            }
                        }
                    }
                }
            }
            AOp::SubGet => {
                if let Some((_, s)) = sub.as_ref() {
                    let v = s.get().await;
                    sh.rec(tid, HOp::Read, inv, Res::Val(v));
                }
            }
            AOp::CloneSub { reset } => {
                if let Some((from, s)) = sub.take() {
                    let id = sh.next_sub.get();
                    sh.next_sub.set(id + 1);
                    let c = if reset { s.clone_reset() } else { s.clone() };
                    drop(s);
                    sub = Some((id, c));
                    if reset {
                        sh.rec(tid, HOp::Subscribe { id, reset: true }, inv, Res::Unit);
                    } else {
                        sh.rec(tid, HOp::SubClone { from, id }, inv, Res::Unit);
                    }
                }
            }
            AOp::Yield => YieldNow(false).await,
            AOp::DropOwner => {
                if let Some(o) = owner.take() {
                    drop(o);
                    sh.rec_drop(tid, inv);
                }
            }
        }
        sh.cur.borrow_mut()[tid] = None;
    }
    if let Some(o) = owner.take() {
        let inv = sh.stamp();
        drop(o);
        sh.rec_drop(tid, inv);
    }
}

struct Task {
    fut: Option<Pin<Box<dyn Future<Output = ()>>>>,
    own: Option<(Arc<Flag>, std::task::Waker)>,
    flag: Option<Arc<Flag>>,
    finished: bool,
    polls: u32,
    holds_owner: bool,
}

impl Task {
    fn live(&self) -> bool {
        self.fut.is_some() && !self.finished
    }
    fn runnable(&self) -> bool {
        self.live() && self.flag.as_ref().map_or(true, |f| f.is_woken())
    }
}

pub fn run_async_case(case: &ACase) -> Outcome {
    let mut counters = Counters::default();
    let mut fp = Fingerprint::default();
    let n = case.tasks.len();
    let sh = Rc::new(Sh { seq: Cell::new(0), next_sub: Cell::new(0), next_drop: Cell::new(0), hist: RefCell::new(Vec::new()), cur: RefCell::new(vec![None; n]), violation: RefCell::new(None), held: Cell::new(0), updates: Cell::new(0), kf_d11_keep: case.kf_d11_keep_parked_acquisition });
    let mut spec = Spec { value: case.initial, version: 1, owners: 0, closed: false, releasing: 0, observed: Vec::new() };
    let mut sim_steps = 0u64;
    let mut violation: Option<Violation> = None;
    let mut cancels = 0u64;
    let mut contended = 0u64;
    let r = catch_unwind(AssertUnwindSafe(|| {
        // set-up
        let mut uniq = if case.unique { Some(Observable::new_async(case.initial)) } else { None };
        let root = if case.unique { None } else { Some(SharedObservable::new_async(case.initial)) };
        let mut tasks: Vec<Task> = Vec::new();
        // subscribers first (the unique Observable is moved into task 0 afterwards)
        let mut subs: Vec<Option<(usize, Subscriber<u64, AsyncLock>)>> = Vec::new();
        for t in case.tasks.iter() {
            let mut sub = None;
            if let Some(reset) = t.sub {
                let id = sh.next_sub.get();
                sh.next_sub.set(id + 1);
                let s = if let Some(u) = uniq.as_ref() {
                    if reset {
                        Observable::subscribe_reset_async(u)
                    } else {
                        Observable::subscribe_async(u)
                    }
                } else {
                    let root = root.as_ref().unwrap();
                    if reset {
                        root.subscribe_reset()
                    } else {
                        super::backend::now(root.subscribe()).expect("uncontended subscribe")
                    }
                };
                spec.observed.push(if reset { 0 } else { 1 });
                sub = Some((id, s));
            }
            subs.push(sub);
        }
        for (tid, t) in case.tasks.iter().enumerate() {
            let sub = subs[tid].take();
            let owner = if case.unique {
                if tid == 0 {
                    uniq.take().map(Owner::Unique)
                } else {
                    None
                }
            } else {
                Some(Owner::Shared(root.as_ref().unwrap().clone()))
            };
            let holds_owner = owner.is_some();
            if holds_owner {
                spec.owners += 1;
            }
            let fut: Pin<Box<dyn Future<Output = ()>>> = Box::pin(run_task(tid, t.ops.clone(), owner, sub, sh.clone()));
            tasks.push(Task { fut: Some(fut), own: None, flag: None, finished: false, polls: 0, holds_owner });
        }
        drop(uniq);
        let mut main_owner = if case.main_owner && !case.unique { root } else { drop(root); None };
        if main_owner.is_some() {
            spec.owners += 1;
        }

        let same_waker = case.same_waker;
        let poll_task = |tasks: &mut Vec<Task>, i: usize, sim_steps: &mut u64, fp: &mut Fingerprint, counters: &mut Counters, contended: &mut u64| {
            let t = &mut tasks[i];
            if !t.live() {
                return;
            }
            *sim_steps += 1;
            if std::env::var_os("TASKSIM_TRACE").is_some() {
                eprintln!("poll task {i} (doing {:?})", sh.cur.borrow()[i]);
            }
            let was_unwoken = t.flag.as_ref().map_or(false, |f| !f.is_woken());
            let h0 = sh.hist.borrow().len();
            let (flag, wk) = if same_waker {
                let (f, w) = t.own.get_or_insert_with(wake::fresh).clone();
                f.clear();
                (f, w)
            } else {
                wake::fresh()
            };
            let mut cx = Context::from_waker(&wk);
            t.polls += 1;
            let r = t.fut.as_mut().unwrap().as_mut().poll(&mut cx);
            let progressed = sh.hist.borrow().len() != h0 || r.is_ready();
            match r {
                Poll::Ready(()) => {
                    t.finished = true;
                    t.fut = None;
                    t.flag = None;
                    fp.add(81);
                }
                Poll::Pending => {
                    if !flag.is_woken() {
                        *contended += 1;
                    }
                    t.flag = Some(flag);
                    fp.add(82 + progressed as u64);
                }
            }
            if was_unwoken {
                counters.inc("fault.F5_spurious_poll");
                if progressed {
                    sh.violate("progress_without_wake", format!("task {i} made progress although the waker of its last Pending poll was never woken"));
                }
            }
        };
        let settle = |tasks: &mut Vec<Task>, sim_steps: &mut u64, fp: &mut Fingerprint, counters: &mut Counters, contended: &mut u64| {
            let mut guard = 0;
            while let Some(i) = (0..tasks.len()).find(|&i| tasks[i].runnable()) {
                poll_task(tasks, i, sim_steps, fp, counters, contended);
                guard += 1;
                if guard > 20_000 || sh.violation.borrow().is_some() {
                    if guard > 20_000 {
                        sh.violate("no_quiescence", "tasks keep waking each other without finishing".into());
                    }
                    return;
                }
            }
            // quiescence: nobody is runnable. A task suspended in next() is, at this moment, a
            // subscriber that reports Pending — an observation the history must be consistent with.
            let cur = sh.cur.borrow().clone();
            for (i, t) in tasks.iter().enumerate() {
                if t.live() {
                    if let Some((_, Some(id))) = &cur[i] {
                        // one observation per quiescent point; none if nothing happened since the last one
                        let last_is_same = sh.hist.borrow().last().map_or(false, |e| e.tid == i && e.op == HOp::Poll(*id) && e.res == Res::Poll(PollR::Pending));
                        if !last_is_same {
                            let inv = sh.stamp();
                            sh.rec(i, HOp::Poll(*id), inv, Res::Poll(PollR::Pending));
                        }
                    }
                }
            }
        };

        for (k, step) in case.steps.iter().enumerate() {
            if sh.violation.borrow().is_some() {
                break;
            }
            fp.add(match step {
                AStep::Run(_) => 1,
                AStep::Poll(_) => 2,
                AStep::Cancel(_) => 3,
                AStep::Settle => 4,
            });
            let _ = k;
            match step {
                AStep::Run(k) => {
                    let r: Vec<usize> = (0..tasks.len()).filter(|&i| tasks[i].runnable()).collect();
                    if !r.is_empty() {
                        poll_task(&mut tasks, r[k % r.len()], &mut sim_steps, &mut fp, &mut counters, &mut contended);
                    }
                }
                AStep::Poll(i) => {
                    if !tasks.is_empty() {
                        let i = i % tasks.len();
                        poll_task(&mut tasks, i, &mut sim_steps, &mut fp, &mut counters, &mut contended);
                    }
                }
                AStep::Cancel(i) => {
                    if !tasks.is_empty() {
                        let i = i % tasks.len();
                        if tasks[i].live() && tasks[i].polls > 0 {
                            // F9: the task is dropped wherever it is suspended; a call in flight has
                            // no result. Its owner handle (if it still has one) is dropped with it.
                            let had_owner = tasks[i].holds_owner;
                            let inv = sh.stamp();
                            tasks[i].fut = None;
                            tasks[i].finished = true;
                            sh.cur.borrow_mut()[i] = None;
                            cancels += 1;
                            counters.inc("fault.F9_task_cancelled");
                            // whether the owner was still held is only known to the task; the
                            // history stays sound if we record the drop only when it had not
                            // dropped it itself
                            let dropped_before = sh.hist.borrow().iter().filter(|e| e.tid == i && matches!(e.op, HOp::Release(_))).count() > 0;
                            if had_owner && !dropped_before {
                                sh.rec_drop(i, inv);
                            }
                        }
                    }
                }
                AStep::Settle => settle(&mut tasks, &mut sim_steps, &mut fp, &mut counters, &mut contended),
            }
        }
        if sh.violation.borrow().is_none() {
            settle(&mut tasks, &mut sim_steps, &mut fp, &mut counters, &mut contended);
        }
        // audit: a task that is not woken must not be able to make progress
        for round in 0..2 {
            if round == 1 {
                // the harness gives up its owner handle: now the stream must end for everybody
                let Some(o) = main_owner.take() else { break };
                let inv = sh.stamp();
                drop(o);
                sh.rec_drop(n, inv);
            }
            if sh.violation.borrow().is_some() {
                break;
            }
            for i in 0..tasks.len() {
                if tasks[i].live() {
                    poll_task(&mut tasks, i, &mut sim_steps, &mut fp, &mut counters, &mut contended);
                }
            }
            settle(&mut tasks, &mut sim_steps, &mut fp, &mut counters, &mut contended);
        }
        drop(main_owner);
        // every owner lives inside a task; a task can only be left if it waits for an update that
        // never comes while owners exist. At the final quiescence all owner tasks are done (or they
        // are stuck on the lock, which is the violation), so the state is closed and every
        // subscriber task must have ended.
        if sh.violation.borrow().is_none() {
            let cur = sh.cur.borrow().clone();
            for (i, t) in tasks.iter().enumerate() {
                if t.live() {
                    let owners_left = tasks.iter().any(|x| x.live() && x.holds_owner);
                    let what = cur[i].as_ref().map(|c| c.0.clone()).unwrap_or_default();
                    if t.holds_owner || !owners_left {
                        sh.violate("task_stuck", format!("at the final quiescence task {i} is still suspended in {what} (held guards: {}, live owner tasks: {})", sh.held.get(), owners_left));
                        break;
                    }
                }
            }
        }
        drop(tasks);
    }));
    if r.is_err() {
        let loc = crate::LAST_PANIC_LOCATION.with(|l| l.borrow().clone());
        sh.violate("library_panic", format!("panic during the run at {loc}"));
    }
    if let Some((oracle, detail)) = sh.violation.borrow_mut().take() {
        violation = Some(Violation { props: props(&["C16"]), oracle, stage: -1, step: sim_steps as usize, detail });
    } else {
        let hist = sh.hist.borrow();
        if hist.len() > 63 {
            // beyond the checker's bound: no verdict for this run (counted, never an alarm)
            counters.inc("probe.history_too_long_no_verdict");
        } else if let Err(e) = lin_check(&spec, &hist) {
            violation = Some(Violation { props: props(&["C16"]), oracle: "not_linearizable".into(), stage: -1, step: sim_steps as usize, detail: e });
        }
    }
    counters.add("probe.polls_pending_without_self_wake", contended);
    // (histories on which the checker's search budget ran out are counted process-wide in lin::UNDECIDED)
    counters.add("ops.history_events", sh.hist.borrow().len() as u64);
    fp.add(sh.hist.borrow().len() as u64);
    let nontrivial = contended >= 1 && sh.hist.borrow().len() >= 4;
    let _ = cancels;
    Outcome { violation, counters, fingerprint: fp.0, steps: sim_steps, nontrivial }
}

pub fn gen_async_case(rng: &mut Rng) -> ACase {
    let unique = rng.chance(1, 5);
    let n = 2 + rng.below(3);
    let mut next = 10u64;
    let mut val = || {
        next += 1;
        next
    };
    // set_if_not_eq is only interesting against a value somebody else also writes
    let pool: Vec<u64> = vec![1, 11, 12, 13];
    let mut tasks = Vec::new();
    for tid in 0..n {
        let role = if unique {
            if tid == 0 {
                0
            } else {
                2
            }
        } else {
            rng.below(4)
        };
        let k = 1 + rng.below(3);
        let mut ops = Vec::new();
        let mut sub = None;
        match role {
            0 => {
                for _ in 0..k {
                    ops.push(match rng.below(9) {
                        0..=3 => AOp::Set(val()),
                        4 => AOp::SetIfNotEq(if rng.chance(2, 3) { *rng.pick(&pool) } else { val() }),
                        5 => AOp::Update(1 + rng.below(5) as u64),
                        6 => AOp::UpdateIf(1 + rng.below(5) as u64, rng.chance(1, 2)),
                        7 => AOp::Take,
                        _ => AOp::Get,
                    });
                }
            }
            1 => {
                for _ in 0..k {
                    ops.push(match rng.below(6) {
                        0 | 1 => {
                            if rng.chance(1, 3) {
                                AOp::WriteHoldNoop(1 + rng.below(3) as u8, rng.chance(1, 2))
                            } else {
                                AOp::WriteHold(1 + rng.below(3) as u8, 1 + rng.below(5) as u64)
                            }
                        }
                        2 | 3 => AOp::ReadHold(1 + rng.below(3) as u8),
                        4 => AOp::Set(val()),
                        _ => AOp::Yield,
                    });
                }
            }
            3 => {
                // a task that subscribes late (possibly while a guard is held or a writer is queued)
                // and then looks at what its new subscriber has to say
                for _ in 0..rng.below(3) {
                    ops.push(AOp::Yield);
                }
                ops.push(AOp::Subscribe { reset: rng.chance(1, 4) });
                for _ in 0..k {
                    ops.push(match rng.below(6) {
                        0..=2 => AOp::Next,
                        3 => AOp::NextNow,
                        4 => AOp::SubGet,
                        _ => AOp::NextCancel(1 + rng.below(2) as u8),
                    });
                }
            }
            _ => {
                sub = Some(rng.chance(1, 3));
                if !unique && rng.chance(1, 3) {
                    ops.push(AOp::DropOwner);
                }
                for _ in 0..k {
                    ops.push(match rng.below(9) {
                        0..=2 => AOp::Next,
                        3 => AOp::NextCancel(1 + rng.below(2) as u8),
                        4 => AOp::NextRefHold(rng.below(3) as u8),
                        5 => {
                            if rng.chance(1, 2) {
                                AOp::NextNow
                            } else {
                                AOp::SidePollThenNextNow
                            }
                        }
                        6 => AOp::SubGet,
                        7 => AOp::CloneSub { reset: rng.chance(1, 3) },
                        _ => AOp::Next,
                    });
                }
            }
        }
        tasks.push(TaskSpec { sub, ops });
    }
    let n_steps = 6 + rng.below(30);
    let steps = (0..n_steps)
        .map(|_| match rng.below(20) {
            0..=13 => AStep::Run(rng.below(4)),
            14..=16 => AStep::Poll(rng.below(n)),
            17 => AStep::Cancel(rng.below(n)),
            _ => AStep::Settle,
        })
        .collect();
    ACase { main_owner: !unique && rng.chance(1, 2), same_waker: rng.chance(1, 2), kf_d11_keep_parked_acquisition: false, unique, initial: 1, tasks, steps }
}

//! One call surface over both lock flavours, so that the same generated history runs on
//! `Observable`/`SharedObservable`/`Subscriber` with the default (sync) lock and with the
//! async-aware lock. Async calls are futures driven by `now()`: without contention they must
//! complete without any other task having to run.

use super::steps::{upd, GuardOp};
use crate::track::{OVal, OV};
use crate::wake;
use eyeball::{AsyncLock, Observable, ObservableWriteGuard, SharedObservable, Subscriber, WeakObservable};
use futures_core::Stream;
use std::future::Future;
use std::pin::{pin, Pin};
use std::task::{Context, Poll};

/// What a write-guard session observed, op by op.
#[derive(Debug, Clone, PartialEq, Eq)]
pub enum GuardRes {
    Prev(OV),
    PrevOpt(Option<OV>),
    Unit,
    /// did a try_read / try_write on another path succeed while the guard was held?
    Acquired(bool),
    Deref(OV),
}

#[derive(Debug, Clone, Copy, PartialEq, Eq)]
pub enum PollKind {
    Next,
    Stream,
    NextRef,
}

fn apply_upd(v: &mut OVal, t: u8) {
    let n = upd(v.v(), t);
    v.key = n.0;
    v.payload = n.1;
}

thread_local! {
    /// Set when an async call could not complete although nothing else holds the lock.
    pub static STUCK: std::cell::Cell<bool> = const { std::cell::Cell::new(false) };
}

/// Drive a future of the async flavour to completion on the spot. A self-wake followed by
/// another poll is tolerated (cooperative budgeting); Pending without a wake means the call waits
/// for somebody else although nobody holds the lock.
pub fn now<F: Future>(fut: F) -> Option<F::Output> {
    let mut fut = pin!(fut);
    for _ in 0..8 {
        let (flag, wk) = wake::fresh();
        let mut cx = Context::from_waker(&wk);
        match fut.as_mut().poll(&mut cx) {
            Poll::Ready(v) => return Some(v),
            Poll::Pending => {
                if !flag.is_woken() {
                    break;
                }
            }
        }
    }
    STUCK.with(|s| s.set(true));
    None
}

pub trait Backend {
    const ASYNC: bool;
    type U;
    type S;
    type W;
    type Sub: Send + 'static;

    fn u_new(v: OV) -> Self::U;
    fn u_subscribe(u: &Self::U) -> Self::Sub;
    fn u_subscribe_reset(u: &Self::U) -> Self::Sub;
    fn u_get(u: &Self::U) -> OV;
    fn u_set(u: &mut Self::U, v: OV) -> OV;
    fn u_set_if_not_eq(u: &mut Self::U, v: OV) -> Option<OV>;
    fn u_set_if_hash_not_eq(u: &mut Self::U, v: OV) -> Option<OV>;
    fn u_take(u: &mut Self::U) -> OV;
    fn u_update(u: &mut Self::U, t: u8);
    fn u_update_if(u: &mut Self::U, t: u8, notify: bool);
    fn u_subscriber_count(u: &Self::U) -> usize;
    fn u_into_shared(u: Self::U) -> Self::S;

    fn s_new(v: OV) -> Self::S;
    fn s_clone(s: &Self::S) -> Self::S;
    fn s_subscribe(s: &Self::S) -> Self::Sub;
    fn s_subscribe_reset(s: &Self::S) -> Self::Sub;
    fn s_get(s: &Self::S) -> OV;
    fn s_read(s: &Self::S) -> OV;
    /// (value seen through the read guard, try_write succeeded while held, try_read succeeded while held)
    fn s_read_hold(s: &Self::S) -> (OV, bool, bool);
    fn s_guard(s: &Self::S, ops: &[GuardOp]) -> Vec<GuardRes>;
    fn s_set(s: &Self::S, v: OV) -> OV;
    fn s_set_if_not_eq(s: &Self::S, v: OV) -> Option<OV>;
    fn s_set_if_hash_not_eq(s: &Self::S, v: OV) -> Option<OV>;
    fn s_take(s: &Self::S) -> OV;
    fn s_update(s: &Self::S, t: u8);
    fn s_update_if(s: &Self::S, t: u8, notify: bool);
    /// (observable_count, subscriber_count, strong_count, weak_count)
    fn s_counts(s: &Self::S) -> (usize, usize, usize, usize);
    /// the counts while `n` read guards of `s` and one read guard of each of `subs` are alive
    fn s_counts_guarded(s: &Self::S, n: usize, subs: &[&Self::Sub]) -> (usize, usize, usize, usize);
    fn u_count_guarded(u: &Self::U, subs: &[&Self::Sub]) -> usize;
    fn s_downgrade(s: &Self::S) -> Self::W;
    /// Async flavour: poll `sub` while a write guard taken through `s` is alive; returns the poll
    /// result, the counts read under the guard and the counts read after its release. None: not
    /// available (sync flavour: the thread would block on its own guard) or the guard was not granted.
    #[allow(clippy::type_complexity)]
    fn s_poll_under_write(_s: &Self::S, _sub: &mut Self::Sub, _kind: PollKind, _cx: &mut Context<'_>) -> Option<(Poll<Option<OV>>, (usize, usize, usize, usize), (usize, usize, usize, usize))> {
        None
    }

    fn w_upgrade(w: &Self::W) -> Option<Self::S>;
    fn w_clone(w: &Self::W) -> Self::W;

    fn sub_poll(sub: &mut Self::Sub, kind: PollKind, cx: &mut Context<'_>) -> Poll<Option<OV>>;
    fn sub_next_now(sub: &mut Self::Sub) -> OV;
    fn sub_next_ref_now(sub: &mut Self::Sub) -> OV;
    fn sub_get(sub: &Self::Sub) -> OV;
    fn sub_read(sub: &Self::Sub) -> OV;
    fn sub_reset(sub: &mut Self::Sub);
    fn sub_clone(sub: &Self::Sub) -> Self::Sub;
    fn sub_clone_reset(sub: &Self::Sub) -> Self::Sub;
}

pub struct SyncB;

impl Backend for SyncB {
    const ASYNC: bool = false;
    type U = Observable<OVal>;
    type S = SharedObservable<OVal>;
    type W = WeakObservable<OVal>;
    type Sub = Subscriber<OVal>;

    fn u_new(v: OV) -> Self::U {
        // (the default value is the occasion to go through `Default`)
        if v == OV(0, 0, 0) {
            return Default::default();
        }
        Observable::new(OVal::new(v))
    }
    fn u_subscribe(u: &Self::U) -> Self::Sub {
        Observable::subscribe(u)
    }
    fn u_subscribe_reset(u: &Self::U) -> Self::Sub {
        Observable::subscribe_reset(u)
    }
    fn u_get(u: &Self::U) -> OV {
        // once through the associated function, once through Deref
        let a = Observable::get(u).v();
        let b = (**u).v();
        if a == b {
            a
        } else {
            OV(255, 0, 0)
        }
    }
    fn u_set(u: &mut Self::U, v: OV) -> OV {
        Observable::set(u, OVal::new(v)).v()
    }
    fn u_set_if_not_eq(u: &mut Self::U, v: OV) -> Option<OV> {
        Observable::set_if_not_eq(u, OVal::new(v)).map(|x| x.v())
    }
    fn u_set_if_hash_not_eq(u: &mut Self::U, v: OV) -> Option<OV> {
        Observable::set_if_hash_not_eq(u, OVal::new(v)).map(|x| x.v())
    }
    fn u_take(u: &mut Self::U) -> OV {
        Observable::take(u).v()
    }
    fn u_update(u: &mut Self::U, t: u8) {
        Observable::update(u, |v| apply_upd(v, t))
    }
    fn u_update_if(u: &mut Self::U, t: u8, notify: bool) {
        Observable::update_if(u, |v| {
            apply_upd(v, t);
            notify
        })
    }
    fn u_subscriber_count(u: &Self::U) -> usize {
        Observable::subscriber_count(u)
    }
    fn u_into_shared(u: Self::U) -> Self::S {
        Observable::into_shared(u)
    }

    fn s_new(v: OV) -> Self::S {
        if v == OV(0, 0, 0) {
            return Default::default();
        }
        SharedObservable::new(OVal::new(v))
    }
    fn s_clone(s: &Self::S) -> Self::S {
        s.clone()
    }
    fn s_subscribe(s: &Self::S) -> Self::Sub {
        s.subscribe()
    }
    fn s_subscribe_reset(s: &Self::S) -> Self::Sub {
        s.subscribe_reset()
    }
    fn s_get(s: &Self::S) -> OV {
        s.get().v()
    }
    fn s_read(s: &Self::S) -> OV {
        s.read().v()
    }
    fn s_read_hold(s: &Self::S) -> (OV, bool, bool) {
        let g = s.read();
        let w = s.try_write().is_ok();
        let r = s.try_read().is_ok();
        (g.v(), w, r)
    }
    fn s_guard(s: &Self::S, ops: &[GuardOp]) -> Vec<GuardRes> {
        // sessions with an even number of operations take the guard through `try_write` (nothing
        // else holds the lock in this world, so it must succeed), the others through `write`
        let mut g = if ops.len() % 2 == 0 {
            match s.try_write() {
                Ok(g) => g,
                Err(_) => return vec![GuardRes::Acquired(false)],
            }
        } else {
            s.write()
        };
        let mut out = Vec::new();
        for op in ops {
            out.push(match op {
                GuardOp::Set(v) => GuardRes::Prev(ObservableWriteGuard::set(&mut g, OVal::new(*v)).v()),
                GuardOp::SetIfNotEq(v) => GuardRes::PrevOpt(ObservableWriteGuard::set_if_not_eq(&mut g, OVal::new(*v)).map(|x| x.v())),
                GuardOp::SetIfHashNotEq(v) => {
                    GuardRes::PrevOpt(ObservableWriteGuard::set_if_hash_not_eq(&mut g, OVal::new(*v)).map(|x| x.v()))
                }
                GuardOp::Take => GuardRes::Prev(ObservableWriteGuard::take(&mut g).v()),
                GuardOp::Update(t) => {
                    ObservableWriteGuard::update(&mut g, |v| apply_upd(v, *t));
                    GuardRes::Unit
                }
                GuardOp::UpdateIf(t, n) => {
                    ObservableWriteGuard::update_if(&mut g, |v| {
                        apply_upd(v, *t);
                        *n
                    });
                    GuardRes::Unit
                }
                GuardOp::TryReadWhileHeld => GuardRes::Acquired(s.try_read().is_ok()),
                GuardOp::TryWriteWhileHeld => GuardRes::Acquired(s.try_write().is_ok()),
                GuardOp::Deref => GuardRes::Deref(g.v()),
            });
        }
        out
    }
    fn s_set(s: &Self::S, v: OV) -> OV {
        s.set(OVal::new(v)).v()
    }
    fn s_set_if_not_eq(s: &Self::S, v: OV) -> Option<OV> {
        s.set_if_not_eq(OVal::new(v)).map(|x| x.v())
    }
    fn s_set_if_hash_not_eq(s: &Self::S, v: OV) -> Option<OV> {
        s.set_if_hash_not_eq(OVal::new(v)).map(|x| x.v())
    }
    fn s_take(s: &Self::S) -> OV {
        s.take().v()
    }
    fn s_update(s: &Self::S, t: u8) {
        s.update(|v| apply_upd(v, t))
    }
    fn s_update_if(s: &Self::S, t: u8, notify: bool) {
        s.update_if(|v| {
            apply_upd(v, t);
            notify
        })
    }
    fn s_counts(s: &Self::S) -> (usize, usize, usize, usize) {
        (s.observable_count(), s.subscriber_count(), s.strong_count(), s.weak_count())
    }
    fn s_counts_guarded(s: &Self::S, n: usize, subs: &[&Self::Sub]) -> (usize, usize, usize, usize) {
        let _gs: Vec<_> = (0..n).filter_map(|_| s.try_read().ok()).collect();
        let _sg: Vec<_> = subs.iter().map(|x| x.read()).collect();
        Self::s_counts(s)
    }
    fn u_count_guarded(u: &Self::U, subs: &[&Self::Sub]) -> usize {
        let _sg: Vec<_> = subs.iter().map(|x| x.read()).collect();
        Self::u_subscriber_count(u)
    }
    fn s_downgrade(s: &Self::S) -> Self::W {
        s.downgrade()
    }
    fn w_upgrade(w: &Self::W) -> Option<Self::S> {
        w.upgrade()
    }
    fn w_clone(w: &Self::W) -> Self::W {
        w.clone()
    }

    fn sub_poll(sub: &mut Self::Sub, kind: PollKind, cx: &mut Context<'_>) -> Poll<Option<OV>> {
        match kind {
            PollKind::Next => {
                let mut f = sub.next();
                Pin::new(&mut f).poll(cx).map(|o| o.map(|v| v.v()))
            }
            PollKind::Stream => Pin::new(sub).poll_next(cx).map(|o| o.map(|v| v.v())),
            PollKind::NextRef => {
                let f = pin!(sub.next_ref());
                f.poll(cx).map(|o| o.map(|g| g.v()))
            }
        }
    }
    fn sub_next_now(sub: &mut Self::Sub) -> OV {
        sub.next_now().v()
    }
    fn sub_next_ref_now(sub: &mut Self::Sub) -> OV {
        sub.next_ref_now().v()
    }
    fn sub_get(sub: &Self::Sub) -> OV {
        sub.get().v()
    }
    fn sub_read(sub: &Self::Sub) -> OV {
        sub.read().v()
    }
    fn sub_reset(sub: &mut Self::Sub) {
        sub.reset()
    }
    fn sub_clone(sub: &Self::Sub) -> Self::Sub {
        sub.clone()
    }
    fn sub_clone_reset(sub: &Self::Sub) -> Self::Sub {
        sub.clone_reset()
    }
}

pub struct AsyncB;

const STUCK_V: OV = OV(254, 0, 0);

impl Backend for AsyncB {
    const ASYNC: bool = true;
    type U = Observable<OVal, AsyncLock>;
    type S = SharedObservable<OVal, AsyncLock>;
    type W = WeakObservable<OVal, AsyncLock>;
    type Sub = Subscriber<OVal, AsyncLock>;

    fn u_new(v: OV) -> Self::U {
        if v == OV(0, 0, 0) {
            return Default::default();
        }
        Observable::new_async(OVal::new(v))
    }
    fn u_subscribe(u: &Self::U) -> Self::Sub {
        Observable::subscribe_async(u)
    }
    fn u_subscribe_reset(u: &Self::U) -> Self::Sub {
        Observable::subscribe_reset_async(u)
    }
    fn u_get(u: &Self::U) -> OV {
        Observable::get_async(u).v()
    }
    fn u_set(u: &mut Self::U, v: OV) -> OV {
        now(Observable::set_async(u, OVal::new(v))).map_or(STUCK_V, |x| x.v())
    }
    fn u_set_if_not_eq(u: &mut Self::U, v: OV) -> Option<OV> {
        now(Observable::set_if_not_eq_async(u, OVal::new(v))).unwrap_or(Some(OVal::new(STUCK_V))).map(|x| x.v())
    }
    fn u_set_if_hash_not_eq(u: &mut Self::U, v: OV) -> Option<OV> {
        now(Observable::set_if_hash_not_eq_async(u, OVal::new(v))).unwrap_or(Some(OVal::new(STUCK_V))).map(|x| x.v())
    }
    fn u_take(u: &mut Self::U) -> OV {
        now(Observable::take_async(u)).map_or(STUCK_V, |x| x.v())
    }
    fn u_update(u: &mut Self::U, t: u8) {
        now(Observable::update_async(u, |v| apply_upd(v, t)));
    }
    fn u_update_if(u: &mut Self::U, t: u8, notify: bool) {
        now(Observable::update_if_async(u, |v| {
            apply_upd(v, t);
            notify
        }));
    }
    fn u_subscriber_count(u: &Self::U) -> usize {
        Observable::subscriber_count(u)
    }
    fn u_into_shared(u: Self::U) -> Self::S {
        Observable::into_shared(u)
    }

    fn s_new(v: OV) -> Self::S {
        if v == OV(0, 0, 0) {
            return Default::default();
        }
        SharedObservable::new_async(OVal::new(v))
    }
    fn s_clone(s: &Self::S) -> Self::S {
        s.clone()
    }
    fn s_subscribe(s: &Self::S) -> Self::Sub {
        match now(s.subscribe()) {
            Some(sub) => sub,
            None => s.subscribe_reset(),
        }
    }
    fn s_subscribe_reset(s: &Self::S) -> Self::Sub {
        s.subscribe_reset()
    }
    fn s_get(s: &Self::S) -> OV {
        now(s.get()).map_or(STUCK_V, |x| x.v())
    }
    fn s_read(s: &Self::S) -> OV {
        now(s.read()).map_or(STUCK_V, |g| g.v())
    }
    fn s_read_hold(s: &Self::S) -> (OV, bool, bool) {
        match now(s.read()) {
            Some(g) => {
                let w = s.try_write().is_some();
                let r = s.try_read().is_some();
                (g.v(), w, r)
            }
            None => (STUCK_V, false, true),
        }
    }
    fn s_guard(s: &Self::S, ops: &[GuardOp]) -> Vec<GuardRes> {
        let mut g = if ops.len() % 2 == 0 {
            match s.try_write() {
                Some(g) => g,
                None => return vec![GuardRes::Acquired(false)],
            }
        } else {
            let Some(g) = now(s.write()) else { return vec![GuardRes::Deref(STUCK_V)] };
            g
        };
        let mut out = Vec::new();
        for op in ops {
            out.push(match op {
                GuardOp::Set(v) => GuardRes::Prev(ObservableWriteGuard::set(&mut g, OVal::new(*v)).v()),
                GuardOp::SetIfNotEq(v) => GuardRes::PrevOpt(ObservableWriteGuard::set_if_not_eq(&mut g, OVal::new(*v)).map(|x| x.v())),
                GuardOp::SetIfHashNotEq(v) => {
                    GuardRes::PrevOpt(ObservableWriteGuard::set_if_hash_not_eq(&mut g, OVal::new(*v)).map(|x| x.v()))
                }
                GuardOp::Take => GuardRes::Prev(ObservableWriteGuard::take(&mut g).v()),
                GuardOp::Update(t) => {
                    ObservableWriteGuard::update(&mut g, |v| apply_upd(v, *t));
                    GuardRes::Unit
                }
                GuardOp::UpdateIf(t, n) => {
                    ObservableWriteGuard::update_if(&mut g, |v| {
                        apply_upd(v, *t);
                        *n
                    });
                    GuardRes::Unit
                }
                GuardOp::TryReadWhileHeld => GuardRes::Acquired(s.try_read().is_some()),
                GuardOp::TryWriteWhileHeld => GuardRes::Acquired(s.try_write().is_some()),
                GuardOp::Deref => GuardRes::Deref(g.v()),
            });
        }
        out
    }
    fn s_set(s: &Self::S, v: OV) -> OV {
        now(s.set(OVal::new(v))).map_or(STUCK_V, |x| x.v())
    }
    fn s_set_if_not_eq(s: &Self::S, v: OV) -> Option<OV> {
        now(s.set_if_not_eq(OVal::new(v))).unwrap_or(Some(OVal::new(STUCK_V))).map(|x| x.v())
    }
    fn s_set_if_hash_not_eq(s: &Self::S, v: OV) -> Option<OV> {
        now(s.set_if_hash_not_eq(OVal::new(v))).unwrap_or(Some(OVal::new(STUCK_V))).map(|x| x.v())
    }
    fn s_take(s: &Self::S) -> OV {
        now(s.take()).map_or(STUCK_V, |x| x.v())
    }
    fn s_update(s: &Self::S, t: u8) {
        now(s.update(|v| apply_upd(v, t)));
    }
    fn s_update_if(s: &Self::S, t: u8, notify: bool) {
        now(s.update_if(|v| {
            apply_upd(v, t);
            notify
        }));
    }
    fn s_counts(s: &Self::S) -> (usize, usize, usize, usize) {
        (s.observable_count(), s.subscriber_count(), s.strong_count(), s.weak_count())
    }
    fn s_counts_guarded(s: &Self::S, n: usize, subs: &[&Self::Sub]) -> (usize, usize, usize, usize) {
        let _gs: Vec<_> = (0..n).filter_map(|_| now(s.read())).collect();
        let _sg: Vec<_> = subs.iter().filter_map(|x| now(x.read())).collect();
        Self::s_counts(s)
    }
    fn u_count_guarded(u: &Self::U, subs: &[&Self::Sub]) -> usize {
        let _sg: Vec<_> = subs.iter().filter_map(|x| now(x.read())).collect();
        Self::u_subscriber_count(u)
    }
    fn s_poll_under_write(s: &Self::S, sub: &mut Self::Sub, kind: PollKind, cx: &mut Context<'_>) -> Option<(Poll<Option<OV>>, (usize, usize, usize, usize), (usize, usize, usize, usize))> {
        let g = s.try_write()?;
        let r = Self::sub_poll(sub, kind, cx);
        let held = Self::s_counts(s);
        drop(g);
        let after = Self::s_counts(s);
        Some((r, held, after))
    }
    fn s_downgrade(s: &Self::S) -> Self::W {
        s.downgrade()
    }
    fn w_upgrade(w: &Self::W) -> Option<Self::S> {
        w.upgrade()
    }
    fn w_clone(w: &Self::W) -> Self::W {
        w.clone()
    }

    fn sub_poll(sub: &mut Self::Sub, kind: PollKind, cx: &mut Context<'_>) -> Poll<Option<OV>> {
        match kind {
            PollKind::Next => {
                let f = pin!(sub.next());
                f.poll(cx).map(|o| o.map(|v| v.v()))
            }
            PollKind::Stream => Pin::new(sub).poll_next(cx).map(|o| o.map(|v| v.v())),
            PollKind::NextRef => {
                let f = pin!(sub.next_ref());
                f.poll(cx).map(|o| o.map(|g| g.v()))
            }
        }
    }
    fn sub_next_now(sub: &mut Self::Sub) -> OV {
        now(sub.next_now()).map_or(STUCK_V, |x| x.v())
    }
    fn sub_next_ref_now(sub: &mut Self::Sub) -> OV {
        now(sub.next_ref_now()).map_or(STUCK_V, |g| g.v())
    }
    fn sub_get(sub: &Self::Sub) -> OV {
        now(sub.get()).map_or(STUCK_V, |x| x.v())
    }
    fn sub_read(sub: &Self::Sub) -> OV {
        now(sub.read()).map_or(STUCK_V, |g| g.v())
    }
    fn sub_reset(sub: &mut Self::Sub) {
        sub.reset()
    }
    fn sub_clone(sub: &Self::Sub) -> Self::Sub {
        sub.clone()
    }
    fn sub_clone_reset(sub: &Self::Sub) -> Self::Sub {
        sub.clone_reset()
    }
}

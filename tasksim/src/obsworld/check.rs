//! `Check` implementation for the observable world.

use super::exec::run_case;
use super::gen::gen_case;
use super::steps::*;
use crate::common::Outcome;
use crate::rng::Rng;
use crate::runner::Check;
use crate::track::OV;

pub struct ObsCheck {
    pub prop: String,
}

fn simpler_ov(v: OV) -> Vec<OV> {
    let mut out = Vec::new();
    if v.0 != 0 || v.1 != 0 {
        out.push(OV(0, 0, v.2));
        if v.0 != 0 {
            out.push(OV(0, v.1, v.2));
        }
        if v.1 != 0 {
            out.push(OV(v.0, 0, v.2));
        }
    }
    if v.2 > 9 {
        out.push(OV(v.0, v.1, 1 + v.2 % 9));
    }
    out
}

fn zero(i: usize) -> Vec<usize> {
    if i > 0 {
        vec![0, i - 1]
    } else {
        vec![]
    }
}

fn simpler_step(s: &Step) -> Vec<Step> {
    use Step::*;
    let mut out = Vec::new();
    match s {
        Set(i, v) => {
            out.extend(zero(*i).into_iter().map(|k| Set(k, *v)));
            out.extend(simpler_ov(*v).into_iter().map(|w| Set(*i, w)));
        }
        SetIfNotEq(i, v) => {
            out.push(Set(*i, *v));
            out.extend(simpler_ov(*v).into_iter().map(|w| SetIfNotEq(*i, w)));
        }
        SetIfHashNotEq(i, v) => {
            out.push(Set(*i, *v));
            out.extend(simpler_ov(*v).into_iter().map(|w| SetIfHashNotEq(*i, w)));
        }
        Take(i) => out.push(Set(*i, OV(0, 0, 1))),
        Update(i, t) => {
            if *t > 0 {
                out.push(Update(*i, 0));
            }
        }
        UpdateIf(i, t, n) => {
            if *n {
                out.push(Update(*i, *t));
            }
            if *t > 0 {
                out.push(UpdateIf(*i, 0, *n));
            }
        }
        Guard(i, ops) => {
            for k in 0..ops.len() {
                let mut o = ops.clone();
                o.remove(k);
                if !o.is_empty() {
                    out.push(Guard(*i, o));
                }
            }
            if ops.len() == 1 {
                match &ops[0] {
                    GuardOp::Set(v) => out.push(Set(*i, *v)),
                    GuardOp::Take => out.push(Take(*i)),
                    GuardOp::Update(t) => out.push(Update(*i, *t)),
                    _ => {}
                }
            }
        }
        PollStream(j) | PollNextRef(j) => out.push(PollNext(*j)),
        PollWoken(k, f) => {
            if *f != 0 {
                out.push(PollWoken(*k, 0));
            }
            if *k != 0 {
                out.push(PollWoken(0, *f));
            }
        }
        SubscribeReset(i) => out.push(Subscribe(*i)),
        SubCloneReset(j) => out.push(SubClone(*j)),
        NextRefNow(j) => out.push(NextNow(*j)),
        SubRead(j) => out.push(SubGet(*j)),
        UpgradeKeep(k) => out.push(UpgradeDrop(*k)),
        Park(j) => out.push(SubDrop(*j)),
        Burst(i, a, b, c) => {
            for (x, y, z) in [(a / 2, *b, *c), (*a, b / 2, *c), (*a, *b, c / 2), (0, *b, *c), (*a, 0, *c), (*a, *b, 0)] {
                if (x, y, z) != (*a, *b, *c) {
                    out.push(Burst(*i, x, y, z));
                }
            }
        }
        CountsGuarded(i, n, m) => {
            if *n > 0 {
                out.push(CountsGuarded(*i, n - 1, *m));
            }
            if *m > 0 {
                out.push(CountsGuarded(*i, *n, m - 1));
            }
        }
        CloneOwner(i) | DropOwner(i) | Downgrade(i) | Get(i) | Read(i) | ReadHold(i) | Subscribe(i) => {
            let _ = i;
        }
        _ => {}
    }
    out
}

impl Check for ObsCheck {
    type Case = Case;
    fn prop(&self) -> &str {
        &self.prop
    }
    fn world(&self) -> &'static str {
        "observable"
    }
    fn domain(&self) -> u64 {
        self.prop.trim_start_matches('C').parse::<u64>().unwrap_or(0) + 2000
    }
    fn gen(&self, rng: &mut Rng) -> Case {
        gen_case(&self.prop, rng)
    }
    fn exec(&self, case: &Case) -> Outcome {
        run_case(case)
    }
    fn len(&self, case: &Case) -> usize {
        case.steps.len()
    }
    fn remove_range(&self, case: &Case, from: usize, to: usize) -> Case {
        let mut c = case.clone();
        c.steps.drain(from..to);
        c
    }
    fn simplifications(&self, case: &Case) -> Vec<Case> {
        let mut out = Vec::new();
        if case.config.audit_every_step {
            let mut c = case.clone();
            c.config.audit_every_step = false;
            out.push(c);
        }
        if case.config.unique {
            let mut c = case.clone();
            c.config.unique = false;
            out.push(c);
        }
        if case.config.same_waker_mask != 0 {
            let mut c = case.clone();
            c.config.same_waker_mask = 0;
            out.push(c);
        }
        if case.config.teardown != 0 {
            let mut c = case.clone();
            c.config.teardown = 0;
            out.push(c);
        }
        for v in simpler_ov(case.config.initial) {
            let mut c = case.clone();
            c.config.initial = v;
            out.push(c);
        }
        for (i, s) in case.steps.iter().enumerate() {
            for t in simpler_step(s) {
                let mut c = case.clone();
                c.steps[i] = t;
                out.push(c);
            }
        }
        out
    }
}

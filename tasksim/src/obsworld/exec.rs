//! Interpreter of observable-world cases (operation-level interleavings on one thread).

use super::backend::*;
use super::model::{Exp, Model};
use super::steps::*;
use crate::common::{props, Counters, Outcome, Violation};
use crate::rng::{Fingerprint, Rng};
use crate::track::{self, OV};
use crate::wake::{self, Flag};
use std::panic::{catch_unwind, AssertUnwindSafe};
use std::sync::Arc;
use std::task::{Context, Poll};

struct SubSt<B: Backend> {
    sub: B::Sub,
    /// index in the model
    mj: usize,
    armed: Option<Arc<Flag>>,
    own_waker: Option<(Arc<Flag>, std::task::Waker)>,
    same_waker: bool,
    ever_polled: bool,
    last_ready: bool,
    done: bool,
    polls: u32,
}

impl<B: Backend> SubSt<B> {
    fn runnable(&self) -> bool {
        !self.done && (!self.ever_polled || self.last_ready || self.armed.as_ref().map_or(false, |f| f.is_woken()))
    }
    fn armed_unwoken(&self) -> bool {
        !self.done && self.armed.as_ref().map_or(false, |f| !f.is_woken())
    }
}

/// A task whose waker owns it: the subscriber lives inside, the observable's waker list may be the
/// only thing keeping it alive.
struct ParkedTask<S> {
    sub: std::sync::Mutex<Option<S>>,
}
impl<S: Send + 'static> std::task::Wake for ParkedTask<S> {
    fn wake(self: Arc<Self>) {
        // the executor that would re-poll the task is gone; the task is dropped with this Arc
    }
}

struct World<B: Backend> {
    uniq: Option<B::U>,
    shared: Vec<Option<B::S>>,
    weaks: Vec<Option<B::W>>,
    subs: Vec<Option<SubSt<B>>>,
    /// model indices of subscribers living in abandoned parked tasks
    parked: Vec<usize>,
    model: Model,
    audit: bool,
    same_mask: u8,
    counts: bool,
    adopt: bool,
    reopen: bool,
    step: usize,
    violation: Option<Violation>,
    counters: Counters,
    fp: Fingerprint,
    sim_steps: u64,
    notifying_steps: u64,
    items: u64,
    faults: u64,
}

fn live_idx<T>(v: &[Option<T>], i: usize) -> Option<usize> {
    let live: Vec<usize> = (0..v.len()).filter(|&k| v[k].is_some()).collect();
    if live.is_empty() {
        None
    } else {
        Some(live[i % live.len()])
    }
}

impl<B: Backend> World<B> {
    /// Map the sync flavour's property ids to the async flavour's property.
    fn tag(ps: &[&str]) -> Vec<String> {
        if B::ASYNC {
            let mut out: Vec<String> = Vec::new();
            for p in ps {
                let q = match *p {
                    "C01" | "C02" | "C03" => "C16",
                    x => x,
                };
                if !out.iter().any(|x| x == q) {
                    out.push(q.to_string());
                }
            }
            out
        } else {
            props(ps)
        }
    }
    fn violate(&mut self, ps: &[&str], oracle: &str, detail: String) {
        if self.violation.is_none() {
            self.violation = Some(Violation { props: Self::tag(ps), oracle: oracle.into(), stage: -1, step: self.step, detail });
        }
    }
    fn failed(&self) -> bool {
        self.violation.is_some()
    }
    fn stuck(&mut self, what: &str) -> bool {
        if STUCK.with(|s| s.replace(false)) {
            self.violate(&["C16"], "call_pending_without_contention", format!("{what}: an async call did not complete although nobody holds the lock"));
            true
        } else {
            false
        }
    }

    // ---------------------------------------------------------------- oracles after owner steps

    /// C02 (b): after a notifying update / the close, every armed waker has been woken.
    fn after_owner_step(&mut self, notified: bool, what: &str) {
        if notified {
            self.notifying_steps += 1;
            // the waker list was drained: abandoned parked tasks (and their subscribers) are gone
            for mj in self.parked.drain(..) {
                self.model.subs[mj] = None;
            }
            let mut missed = Vec::new();
            for (j, s) in self.subs.iter().enumerate() {
                if let Some(s) = s {
                    if s.armed_unwoken() {
                        missed.push(j);
                    }
                }
            }
            if !missed.is_empty() {
                self.violate(&["C02"], "pending_subscriber_not_woken", format!("after {what} the waker(s) of pending subscriber(s) {:?} were not woken", missed));
                return;
            }
        }
        self.check_counts();
        if self.failed() || !self.audit {
            return;
        }
        for j in 0..self.subs.len() {
            if self.subs[j].as_ref().map_or(false, |s| s.armed_unwoken()) {
                self.counters.inc("fault.F5_audit_poll");
                self.poll_sub(j, PollKind::Next);
                if self.failed() {
                    return;
                }
            }
        }
    }

    /// C19 at every quiescent moment (every step boundary on one thread).
    fn check_counts(&mut self) {
        if !self.counts {
            return;
        }
        let subs = self.model.live_subs();
        if let Some(u) = &self.uniq {
            let got = B::u_subscriber_count(u);
            if got != subs {
                self.violate(&["C19"], "subscriber_count", format!("Observable::subscriber_count = {got}, live subscribers = {subs}"));
            }
            return;
        }
        let want = (self.model.owners, subs, self.model.owners + subs, self.model.weaks);
        for k in 0..self.shared.len() {
            if let Some(s) = &self.shared[k] {
                let got = B::s_counts(s);
                if got != want {
                    self.violate(&["C19"], "handle_counts", format!("(observable_count, subscriber_count, strong_count, weak_count) = {:?}, live (clones, subscribers, sum, weak refs) = {:?}", got, want));
                    return;
                }
            }
        }
    }

    // ---------------------------------------------------------------- subscribers

    fn poll_sub(&mut self, j: usize, kind: PollKind) {
        let Some(st) = self.subs[j].as_mut() else { return };
        self.sim_steps += 1;
        let was_armed_unwoken = st.armed_unwoken();
        let (flag, wk) = if st.same_waker {
            let (f, w) = st.own_waker.get_or_insert_with(wake::fresh).clone();
            f.clear();
            (f, w)
        } else {
            wake::fresh()
        };
        let mut cx = Context::from_waker(&wk);
        st.polls += 1;
        st.ever_polled = true;
        let mj = st.mj;
        let r = catch_unwind(AssertUnwindSafe(|| B::sub_poll(&mut st.sub, kind, &mut cx)));
        let want = self.model.poll(mj);
        let r = match r {
            Ok(r) => r,
            Err(_) => {
                self.violate(&["C01"], "poll_panicked", format!("poll of subscriber {j} panicked"));
                return;
            }
        };
        let st = self.subs[j].as_mut().unwrap();
        let got = match r {
            Poll::Pending => Exp::Pending,
            Poll::Ready(None) => Exp::End,
            Poll::Ready(Some(v)) => Exp::Value(v),
        };
        match &got {
            Exp::Pending => {
                st.armed = Some(flag);
                st.last_ready = false;
            }
            Exp::End => {
                st.armed = None;
                st.last_ready = false;
                st.done = true;
            }
            Exp::Value(_) => {
                st.armed = None;
                st.last_ready = true;
                self.items += 1;
            }
        }
        self.fp.add(match &got {
            Exp::Pending => 71,
            Exp::End => 72,
            Exp::Value(_) => 73,
        });
        if got != want {
            let ps: &[&str] = if got == Exp::End || want == Exp::End { &["C03"] } else if was_armed_unwoken && want == Exp::Pending { &["C01", "C02"] } else { &["C01"] };
            let oracle = if got == Exp::End || want == Exp::End { "end_of_stream_mismatch" } else { "poll_result_mismatch" };
            self.violate(ps, oracle, format!("{:?} poll of subscriber {j} returned {:?}, expected {:?} (value {:?}, owners {})", kind, got, want, self.model.value, self.model.owners));
            return;
        }
        if was_armed_unwoken && got != Exp::Pending {
            self.violate(&["C02"], "ready_without_wake", format!("subscriber {j} became ready ({:?}) although the waker of its last Pending poll was never woken", got));
        }
    }

    fn settle(&mut self) {
        loop {
            let Some(j) = (0..self.subs.len()).find(|&j| self.subs[j].as_ref().map_or(false, |s| s.runnable())) else { break };
            if self.subs[j].as_ref().unwrap().polls > 300 {
                self.violate(&["C01"], "no_quiescence", format!("subscriber {j} never reaches Pending or the end"));
                return;
            }
            self.poll_sub(j, PollKind::Next);
            if self.failed() {
                return;
            }
        }
    }

    // ---------------------------------------------------------------- steps

    fn owner_sel(&self, i: usize) -> Option<usize> {
        live_idx(&self.shared, i)
    }

    fn exec(&mut self, step: &Step) {
        use Step::*;
        let before = self.model.version;
        match step {
            Set(i, v) => {
                let want = self.model.clone().set(*v);
                let got = if let Some(u) = self.uniq.as_mut() {
                    B::u_set(u, *v)
                } else if let Some(k) = self.owner_sel(*i) {
                    B::s_set(self.shared[k].as_ref().unwrap(), *v)
                } else {
                    return;
                };
                self.model.set(*v);
                if self.stuck("set") {
                    return;
                }
                if got != want {
                    self.violate(&["C01", "C04"], "setter_return_value", format!("set({:?}) returned {:?}, previous value was {:?}", v, got, want));
                }
            }
            SetIfNotEq(i, v) | SetIfHashNotEq(i, v) => {
                let hash = matches!(step, SetIfHashNotEq(..));
                let want = if hash { self.model.clone().set_if_hash_not_eq(*v) } else { self.model.clone().set_if_not_eq(*v) };
                let got = if let Some(u) = self.uniq.as_mut() {
                    if hash {
                        B::u_set_if_hash_not_eq(u, *v)
                    } else {
                        B::u_set_if_not_eq(u, *v)
                    }
                } else if let Some(k) = self.owner_sel(*i) {
                    let s = self.shared[k].as_ref().unwrap();
                    if hash {
                        B::s_set_if_hash_not_eq(s, *v)
                    } else {
                        B::s_set_if_not_eq(s, *v)
                    }
                } else {
                    return;
                };
                if hash {
                    self.model.set_if_hash_not_eq(*v);
                } else {
                    self.model.set_if_not_eq(*v);
                }
                if want.is_none() {
                    self.counters.inc("probe.conditional_set_skipped");
                }
                if self.stuck("set_if_*") {
                    return;
                }
                if got != want {
                    self.violate(&["C01", "C04"], "setter_return_value", format!("{:?} returned {:?}, expected {:?}", step, got, want));
                }
            }
            Take(i) => {
                let want = self.model.clone().take();
                let got = if let Some(u) = self.uniq.as_mut() {
                    B::u_take(u)
                } else if let Some(k) = self.owner_sel(*i) {
                    B::s_take(self.shared[k].as_ref().unwrap())
                } else {
                    return;
                };
                self.model.take();
                if self.stuck("take") {
                    return;
                }
                if got != want {
                    self.violate(&["C01", "C04"], "setter_return_value", format!("take() returned {:?}, previous value was {:?}", got, want));
                }
            }
            Update(i, t) => {
                if let Some(u) = self.uniq.as_mut() {
                    B::u_update(u, *t)
                } else if let Some(k) = self.owner_sel(*i) {
                    B::s_update(self.shared[k].as_ref().unwrap(), *t)
                } else {
                    return;
                }
                self.model.update(*t);
                if self.stuck("update") {
                    return;
                }
            }
            UpdateIf(i, t, n) => {
                if let Some(u) = self.uniq.as_mut() {
                    B::u_update_if(u, *t, *n)
                } else if let Some(k) = self.owner_sel(*i) {
                    B::s_update_if(self.shared[k].as_ref().unwrap(), *t, *n)
                } else {
                    return;
                }
                self.model.update_if(*t, *n);
                if !*n {
                    self.counters.inc("probe.update_if_silent_mutation");
                }
                if self.stuck("update_if") {
                    return;
                }
            }
            Guard(i, ops) => {
                let Some(k) = self.owner_sel(*i) else { return };
                if self.uniq.is_some() {
                    return;
                }
                let got = B::s_guard(self.shared[k].as_ref().unwrap(), ops);
                if self.stuck("write") {
                    return;
                }
                let mut want = Vec::new();
                for op in ops {
                    want.push(match op {
                        GuardOp::Set(v) => GuardRes::Prev(self.model.set(*v)),
                        GuardOp::SetIfNotEq(v) => GuardRes::PrevOpt(self.model.set_if_not_eq(*v)),
                        GuardOp::SetIfHashNotEq(v) => GuardRes::PrevOpt(self.model.set_if_hash_not_eq(*v)),
                        GuardOp::Take => GuardRes::Prev(self.model.take()),
                        GuardOp::Update(t) => {
                            self.model.update(*t);
                            GuardRes::Unit
                        }
                        GuardOp::UpdateIf(t, n) => {
                            self.model.update_if(*t, *n);
                            GuardRes::Unit
                        }
                        GuardOp::TryReadWhileHeld | GuardOp::TryWriteWhileHeld => GuardRes::Acquired(false),
                        GuardOp::Deref => GuardRes::Deref(self.model.value),
                    });
                }
                self.counters.inc("ops.write_guard_session");
                if got != want {
                    self.violate(&["C01", "C04"], "write_guard_session", format!("write-guard session {:?} observed {:?}, expected {:?}", ops, got, want));
                }
            }
            ReadHold(i) => {
                let Some(k) = self.owner_sel(*i) else { return };
                let (v, w, r) = B::s_read_hold(self.shared[k].as_ref().unwrap());
                if self.stuck("read") {
                    return;
                }
                if v != self.model.value || w || !r {
                    self.violate(&["C01", "C04"], "read_guard_session", format!("read guard showed {:?} (stored {:?}); try_write succeeded: {w}; try_read succeeded: {r}", v, self.model.value));
                }
            }
            CountsGuarded(i, n, m) => {
                if !self.counts {
                    return;
                }
                self.counters.inc("ops.counts_under_read_guards");
                let subs: Vec<&B::Sub> = self.subs.iter().flatten().take(*m as usize).map(|s| &s.sub).collect();
                let live = self.model.live_subs();
                let n_sub_guards = subs.len();
                if let Some(u) = &self.uniq {
                    let got = B::u_count_guarded(u, &subs);
                    if self.stuck("read") {
                        return;
                    }
                    if got != live {
                        self.violate(&["C19"], "subscriber_count", format!("Observable::subscriber_count = {got} while {} read guard(s) are alive, live subscribers = {live}", n_sub_guards));
                    }
                } else if let Some(k) = self.owner_sel(*i) {
                    let want = (self.model.owners, live, self.model.owners + live, self.model.weaks);
                    let got = B::s_counts_guarded(self.shared[k].as_ref().unwrap(), *n as usize, &subs);
                    if self.stuck("read") {
                        return;
                    }
                    if got != want {
                        self.violate(&["C19"], "handle_counts", format!("while {} + {} read guard(s) are alive: (observable_count, subscriber_count, strong_count, weak_count) = {:?}, live (clones, subscribers, sum, weak refs) = {:?}", n, n_sub_guards, got, want));
                    }
                }
            }
            Get(i) | Read(i) => {
                let got = if let Some(u) = self.uniq.as_ref() {
                    B::u_get(u)
                } else if let Some(k) = self.owner_sel(*i) {
                    let s = self.shared[k].as_ref().unwrap();
                    if matches!(step, Get(_)) {
                        B::s_get(s)
                    } else {
                        B::s_read(s)
                    }
                } else {
                    return;
                };
                if self.stuck("get/read") {
                    return;
                }
                if got != self.model.value {
                    self.violate(&["C01", "C04"], "owner_read_value", format!("{:?} returned {:?}, stored value is {:?}", step, got, self.model.value));
                }
            }
            Burst(i, nc, ns, nw) => {
                let Some(k) = self.owner_sel(*i) else { return };
                if self.uniq.is_some() {
                    return;
                }
                let live_subs = self.model.live_subs();
                let want = |c: usize, s: usize, w: usize, m: &super::model::Model| (m.owners + c, live_subs + s, m.owners + c + live_subs + s, m.weaks + w);
                let (got, up, got_after) = {
                    let o = self.shared[k].as_ref().unwrap();
                    let clones: Vec<_> = (0..*nc).map(|_| B::s_clone(o)).collect();
                    let subs: Vec<_> = (0..*ns).map(|_| B::s_subscribe(o)).collect();
                    let weaks: Vec<_> = (0..*nw).map(|_| B::s_downgrade(o)).collect();
                    let got = B::s_counts(o);
                    let up = B::s_downgrade(o);
                    let upgraded = B::w_upgrade(&up).is_some();
                    drop(up);
                    drop(clones);
                    drop(subs);
                    drop(weaks);
                    (got, upgraded, B::s_counts(o))
                };
                if self.counts {
                    let w1 = want(*nc as usize, *ns as usize, *nw as usize, &self.model);
                    if got != w1 {
                        self.violate(&["C19"], "handle_counts", format!("with {nc} more clones, {ns} more subscribers and {nw} more weak references alive: (observable_count, subscriber_count, strong_count, weak_count) = {:?}, live = {:?}", got, w1));
                        return;
                    }
                    let w2 = want(0, 0, 0, &self.model);
                    if got_after != w2 {
                        self.violate(&["C19"], "handle_counts", format!("after {nc} clones, {ns} subscribers and {nw} weak references were created and dropped again: counts = {:?}, live = {:?}", got_after, w2));
                        return;
                    }
                }
                if !up {
                    self.violate(&["C03"], "upgrade_result", format!("WeakObservable::upgrade returned None while {} owner(s) exist", self.model.owners as u64 + *nc as u64));
                    return;
                }
            }
            CloneOwner(i) => {
                let Some(k) = self.owner_sel(*i) else { return };
                if self.shared.iter().flatten().count() >= 12 {
                    return;
                }
                let c = B::s_clone(self.shared[k].as_ref().unwrap());
                self.shared.push(Some(c));
                self.model.owners += 1;
            }
            DropOwner(i) => {
                if let Some(u) = self.uniq.take() {
                    drop(u);
                } else if let Some(k) = self.owner_sel(*i) {
                    let s = self.shared[k].take();
                    let r = catch_unwind(AssertUnwindSafe(|| drop(s)));
                    if r.is_err() {
                        self.violate(&["C03"], "drop_panicked", "dropping a SharedObservable panicked".into());
                        return;
                    }
                } else {
                    return;
                }
                self.model.drop_owner();
                if self.model.closed {
                    self.counters.inc("fault.F2_last_owner_dropped");
                    self.faults += 1;
                    if self.subs.iter().flatten().any(|s| s.armed_unwoken()) {
                        self.counters.inc("probe.close_with_pending_subscribers");
                    }
                } else {
                    self.counters.inc("probe.partial_owner_drop");
                }
            }
            Downgrade(i) => {
                let Some(k) = self.owner_sel(*i) else { return };
                if self.weaks.iter().flatten().count() >= 4 {
                    return;
                }
                let w = B::s_downgrade(self.shared[k].as_ref().unwrap());
                self.weaks.push(Some(w));
                self.model.weaks += 1;
            }
            IntoShared => {
                let Some(u) = self.uniq.take() else { return };
                let s = B::u_into_shared(u);
                self.shared.push(Some(s));
                self.counters.inc("probe.into_shared");
                if self.subs.iter().flatten().any(|s| s.armed_unwoken()) {
                    self.counters.inc("probe.into_shared_with_pending_subscribers");
                }
            }
            Subscribe(i) | SubscribeReset(i) => {
                if self.subs.iter().flatten().count() >= 6 {
                    return;
                }
                let reset = matches!(step, SubscribeReset(_));
                let sub = if let Some(u) = self.uniq.as_ref() {
                    if reset {
                        B::u_subscribe_reset(u)
                    } else {
                        B::u_subscribe(u)
                    }
                } else if let Some(k) = self.owner_sel(*i) {
                    let s = self.shared[k].as_ref().unwrap();
                    if reset {
                        B::s_subscribe_reset(s)
                    } else {
                        B::s_subscribe(s)
                    }
                } else {
                    return;
                };
                if self.stuck("subscribe") {
                    return;
                }
                let mj = self.model.subscribe(reset);
                self.subs.push(Some(SubSt { sub, mj, armed: None, own_waker: None, same_waker: (self.same_mask >> (mj % 8)) & 1 == 1, ever_polled: false, last_ready: false, done: false, polls: 0 }));
            }
            UpgradeKeep(k) | UpgradeDrop(k) => {
                let Some(w) = live_idx(&self.weaks, *k) else { return };
                let got = B::w_upgrade(self.weaks[w].as_ref().unwrap());
                let want = self.model.owners > 0;
                if got.is_some() && !want && self.adopt {
                    // C19 mode: adopt the handle and let the count oracle judge
                    self.counters.inc("probe.unexpected_upgrade_adopted");
                    self.shared.push(got);
                    self.model.owners += 1;
                    if self.reopen {
                        // C01 mode: an owner exists again ("a successfully upgraded weak reference is an
                        // owner"), so its writes must reach the subscribers like any owner's
                        self.model.closed = false;
                    }
                    self.check_counts();
                    return;
                }
                if got.is_some() != want {
                    self.violate(&["C03"], "upgrade_result", format!("WeakObservable::upgrade returned {} while {} owner(s) exist", if got.is_some() { "Some" } else { "None" }, self.model.owners));
                    return;
                }
                if !want {
                    self.counters.inc("probe.upgrade_after_end");
                }
                if let Some(s) = got {
                    if matches!(step, UpgradeKeep(_)) && self.shared.iter().flatten().count() < 5 {
                        self.shared.push(Some(s));
                        self.model.owners += 1;
                        self.counters.inc("probe.upgraded_owner_kept");
                    } else {
                        // a transient owner: exists, then is dropped again (never the last one)
                        drop(s);
                    }
                }
            }
            WeakClone(k) => {
                let Some(w) = live_idx(&self.weaks, *k) else { return };
                if self.weaks.iter().flatten().count() >= 4 {
                    return;
                }
                let c = B::w_clone(self.weaks[w].as_ref().unwrap());
                self.weaks.push(Some(c));
                self.model.weaks += 1;
            }
            WeakDrop(k) => {
                let Some(w) = live_idx(&self.weaks, *k) else { return };
                self.weaks[w] = None;
                self.model.weaks -= 1;
            }
            PollUnderWrite(i, j, f) => {
                if !B::ASYNC || self.uniq.is_some() {
                    return;
                }
                let Some(k) = self.owner_sel(*i) else { return };
                let Some(j) = live_idx(&self.subs, *j) else { return };
                if self.subs[j].as_ref().unwrap().done {
                    return;
                }
                let kind = match *f % 3 {
                    0 => PollKind::Next,
                    1 => PollKind::Stream,
                    _ => PollKind::NextRef,
                };
                let (flag, wk) = wake::fresh();
                let mut cx = Context::from_waker(&wk);
                let want = {
                    let subs = self.model.live_subs();
                    (self.model.owners, subs, self.model.owners + subs, self.model.weaks)
                };
                let has_news = self.model.clone().poll(self.subs[j].as_ref().unwrap().mj) != Exp::Pending;
                let st = self.subs[j].as_mut().unwrap();
                st.polls += 1;
                st.ever_polled = true;
                self.sim_steps += 1;
                let r = catch_unwind(AssertUnwindSafe(|| B::s_poll_under_write(self.shared[k].as_ref().unwrap(), &mut st.sub, kind, &mut cx)));
                let Ok(r) = r else {
                    self.violate(&["C01"], "poll_panicked", format!("poll of subscriber {j} under a write guard panicked"));
                    return;
                };
                let Some((r, held, after)) = r else {
                    self.violate(&["C16"], "guard_exclusion", "try_write failed although no guard is alive and no call is in flight".into());
                    return;
                };
                self.counters.inc("fault.F9_subscriber_polled_under_write_guard");
                self.faults += 1;
                if !matches!(r, Poll::Pending) {
                    self.violate(&["C16"], "guard_exclusion", format!("subscriber {j} polled while a write guard is alive did not report Pending"));
                    return;
                }
                st.armed = Some(flag.clone());
                st.last_ready = false;
                if self.counts && (held != want || after != want) {
                    self.violate(&["C19"], "handle_counts", format!("subscriber {j} polled while a write guard is alive: counts under the guard {:?}, after its release {:?}, live (clones, subscribers, sum, weak refs) = {:?}", held, after, want));
                    return;
                }
                if has_news && !flag.is_woken() {
                    self.violate(&["C16"], "not_woken_after_guard_release", format!("subscriber {j} was polled while a write guard was alive (Pending) and has an update to deliver, but the release of the guard did not wake it"));
                    return;
                }
                // let the queued acquisition run (known finding KF-D11: until then it may hold a read permit)
                self.poll_sub(j, kind);
            }
            PollNext(j) | PollStream(j) | PollNextRef(j) => {
                let Some(j) = live_idx(&self.subs, *j) else { return };
                let kind = match step {
                    PollNext(_) => PollKind::Next,
                    PollStream(_) => PollKind::Stream,
                    _ => PollKind::NextRef,
                };
                if self.subs[j].as_ref().unwrap().armed_unwoken() {
                    self.counters.inc("fault.F5_spurious_poll");
                    self.faults += 1;
                }
                if self.subs[j].as_ref().unwrap().armed.is_some() {
                    self.counters.inc("fault.F4_pending_future_cancelled_and_recreated");
                }
                self.poll_sub(j, kind);
                return;
            }
            NextNow(j) | NextRefNow(j) | SubGet(j) | SubRead(j) => {
                let Some(j) = live_idx(&self.subs, *j) else { return };
                let st = self.subs[j].as_mut().unwrap();
                let mj = st.mj;
                let (got, marks) = match step {
                    NextNow(_) => (B::sub_next_now(&mut st.sub), true),
                    NextRefNow(_) => (B::sub_next_ref_now(&mut st.sub), true),
                    SubGet(_) => (B::sub_get(&st.sub), false),
                    _ => (B::sub_read(&st.sub), false),
                };
                if self.stuck("subscriber read") {
                    return;
                }
                let want = if marks { self.model.next_now(mj) } else { self.model.value };
                if self.model.closed {
                    self.counters.inc("probe.read_after_end");
                }
                if got != want {
                    self.violate(&["C01", "C03", "C04"], "subscriber_read_value", format!("{:?} handed out {:?}, the value most recently stored is {:?}", step, got, want));
                }
                return;
            }
            SubReset(j) => {
                let Some(j) = live_idx(&self.subs, *j) else { return };
                let st = self.subs[j].as_mut().unwrap();
                B::sub_reset(&mut st.sub);
                // the task itself made its subscriber ready: no wake-up is involved
                st.last_ready = true;
                st.armed = None;
                self.model.subs[st.mj] = Some(0);
                return;
            }
            SubClone(j) | SubCloneReset(j) => {
                let Some(j) = live_idx(&self.subs, *j) else { return };
                if self.subs.iter().flatten().count() >= 6 {
                    return;
                }
                let reset = matches!(step, SubCloneReset(_));
                let st = self.subs[j].as_ref().unwrap();
                let sub = if reset { B::sub_clone_reset(&st.sub) } else { B::sub_clone(&st.sub) };
                let obs = if reset { 0 } else { self.model.subs[st.mj].unwrap() };
                self.model.subs.push(Some(obs));
                let mj = self.model.subs.len() - 1;
                self.subs.push(Some(SubSt { sub, mj, armed: None, own_waker: None, same_waker: (self.same_mask >> (mj % 8)) & 1 == 1, ever_polled: false, last_ready: false, done: false, polls: 0 }));
                self.check_counts();
                return;
            }
            SubDrop(j) => {
                let Some(j) = live_idx(&self.subs, *j) else { return };
                let st = self.subs[j].take().unwrap();
                if st.armed.is_some() {
                    self.counters.inc("fault.F4_subscriber_dropped_while_pending");
                    self.faults += 1;
                }
                self.model.subs[st.mj] = None;
                drop(st);
                self.check_counts();
                return;
            }
            Park(j) => {
                let Some(j) = live_idx(&self.subs, *j) else { return };
                let st = self.subs[j].take().unwrap();
                let mj = st.mj;
                let task = Arc::new(ParkedTask { sub: std::sync::Mutex::new(Some(st.sub)) });
                let wk = std::task::Waker::from(task.clone());
                let mut cx = Context::from_waker(&wk);
                let r = {
                    let mut g = task.sub.lock().unwrap();
                    B::sub_poll(g.as_mut().unwrap(), PollKind::Next, &mut cx)
                };
                drop(wk);
                let want = self.model.poll(mj);
                let got = match r {
                    Poll::Pending => Exp::Pending,
                    Poll::Ready(None) => Exp::End,
                    Poll::Ready(Some(v)) => Exp::Value(v),
                };
                if got != want {
                    self.violate(&["C01"], "poll_result_mismatch", format!("poll of subscriber {j} inside a task returned {:?}, expected {:?}", got, want));
                    return;
                }
                if got == Exp::Pending {
                    // the executor goes away; the registered waker is now the task's only owner
                    self.parked.push(mj);
                    self.counters.inc("fault.F4_task_parked_and_abandoned");
                    self.faults += 1;
                    drop(task);
                } else {
                    let sub = task.sub.lock().unwrap().take().unwrap();
                    self.subs[j] = Some(SubSt { sub, mj, armed: None, own_waker: None, same_waker: false, ever_polled: true, last_ready: got != Exp::End, done: got == Exp::End, polls: st.polls + 1 });
                    if matches!(got, Exp::Value(_)) {
                        self.items += 1;
                    }
                }
                self.check_counts();
                return;
            }
            PollWoken(k, f) => {
                let r: Vec<usize> = (0..self.subs.len()).filter(|&j| self.subs[j].as_ref().map_or(false, |s| s.runnable())).collect();
                if !r.is_empty() {
                    let kind = match f % 3 {
                        0 => PollKind::Next,
                        1 => PollKind::Stream,
                        _ => PollKind::NextRef,
                    };
                    self.poll_sub(r[k % r.len()], kind);
                }
                return;
            }
            Settle => {
                self.settle();
                return;
            }
        }
        if self.failed() {
            return;
        }
        // owner-side steps end here
        let notified = self.model.version != before || (self.model.closed && matches!(step, DropOwner(_)));
        let what = format!("{:?}", step);
        self.after_owner_step(notified, &what);
    }
}

pub fn run_generic<B: Backend>(case: &Case) -> Outcome {
    track::reset();
    STUCK.with(|s| s.set(false));
    let cfg = &case.config;
    let mut w: World<B> = World {
        uniq: None,
        shared: Vec::new(),
        weaks: Vec::new(),
        subs: Vec::new(),
        parked: Vec::new(),
        model: Model::new(cfg.initial),
        audit: cfg.audit_every_step,
        same_mask: cfg.same_waker_mask,
        counts: cfg.counts,
        adopt: cfg.adopt_unexpected_upgrade,
        reopen: cfg.reopen_on_adopt,
        step: 0,
        violation: None,
        counters: Counters::default(),
        fp: Fingerprint::default(),
        sim_steps: 0,
        notifying_steps: 0,
        items: 0,
        faults: 0,
    };
    w.fp.add(cfg.unique as u64 + 2 * cfg.audit_every_step as u64 + 4 * B::ASYNC as u64);
    let r = catch_unwind(AssertUnwindSafe(|| {
        if cfg.unique {
            w.uniq = Some(B::u_new(cfg.initial));
        } else {
            w.shared.push(Some(B::s_new(cfg.initial)));
        }
        for (i, s) in case.steps.iter().enumerate() {
            w.step = i;
            w.sim_steps += 1;
            w.fp.add(s.kind_code());
            w.exec(s);
            if w.failed() {
                break;
            }
        }
        if !w.failed() {
            // quiescence: every runnable subscriber is polled; nobody may be left armed while
            // something is available
            w.settle();
            for j in 0..w.subs.len() {
                if !w.failed() && w.subs[j].as_ref().map_or(false, |s| s.armed_unwoken()) {
                    w.poll_sub(j, PollKind::Next);
                }
            }
            if !w.failed() && w.model.closed {
                w.settle();
                for j in 0..w.subs.len() {
                    if let Some(s) = &w.subs[j] {
                        if !s.done && !w.failed() {
                            w.violate(&["C03"], "not_ended_after_close", format!("every owner is gone but subscriber {j} still reports Pending at quiescence"));
                        }
                    }
                }
            }
        }
        // teardown in a seeded order (C20)
        let mut rng = Rng::for_run(cfg.teardown, 98, 0);
        let mut order: Vec<usize> = (0..4).collect();
        for i in (1..order.len()).rev() {
            order.swap(i, rng.below(i + 1));
        }
        for o in order {
            match o {
                0 => w.subs.clear(),
                1 => w.weaks.clear(),
                2 => w.shared.clear(),
                _ => w.uniq = None,
            }
        }
    }));
    if r.is_err() && w.violation.is_none() {
        let loc = crate::LAST_PANIC_LOCATION.with(|l| l.borrow().clone());
        w.violate(&["C01", "C03", "C20"], "library_panic", format!("panic during the run at {loc}"));
    }
    if w.violation.is_none() {
        let errs = track::take_errors();
        if let Some(e0) = errs.first() {
            w.violate(&["C20"], "double_drop", e0.clone());
        } else if track::live() != 0 {
            let (c, cl, d) = track::counts();
            w.violate(&["C20"], "leak", format!("{} value instance(s) alive after all handles were dropped (created {c}, cloned {cl}, dropped {d})", track::live()));
        }
    }
    let nontrivial = w.faults >= 1 && w.notifying_steps >= 2 && w.items >= 1;
    Outcome { violation: w.violation.take(), counters: w.counters.clone(), fingerprint: w.fp.0, steps: w.sim_steps, nontrivial }
}

pub fn run_case(case: &Case) -> Outcome {
    match case.config.flavour {
        Flavour::Sync => run_generic::<SyncB>(case),
        Flavour::Async => run_generic::<AsyncB>(case),
    }
}

#[allow(dead_code)]
fn _ov(_: OV) {}

//! Seeded case generator for the observable world.

use super::steps::*;
use crate::rng::Rng;
use crate::track::OV;

fn val(rng: &mut Rng) -> OV {
    // small domain: frequent Eq-collisions and key-(hash-)collisions with different payloads;
    // the tag makes every written value unique (it is invisible to Eq and Hash)
    OV(rng.below(3) as u8, rng.below(3) as u32, 1 + rng.below(60000) as u16)
}

fn guard_ops(rng: &mut Rng) -> Vec<GuardOp> {
    (0..rng.range(1, 4))
        .map(|_| match rng.below(10) {
            0 | 1 => GuardOp::Set(val(rng)),
            2 => GuardOp::SetIfNotEq(val(rng)),
            3 => GuardOp::SetIfHashNotEq(val(rng)),
            4 => GuardOp::Take,
            5 => GuardOp::Update(rng.below(4) as u8),
            6 => GuardOp::UpdateIf(rng.below(4) as u8, rng.chance(1, 2)),
            7 => GuardOp::TryReadWhileHeld,
            8 => GuardOp::TryWriteWhileHeld,
            _ => GuardOp::Deref,
        })
        .collect()
}

pub fn gen_case(prop: &str, rng: &mut Rng) -> Case {
    let flavour = match prop {
        "C16" => Flavour::Async,
        "C19" | "C20" => {
            if rng.chance(1, 2) {
                Flavour::Async
            } else {
                Flavour::Sync
            }
        }
        _ => Flavour::Sync,
    };
    // one run in 24 is outsized: long, with many handles and subscribers alive at once (anything that
    // only breaks beyond a small bound: a waker list that outgrows an inline capacity, counters, ...)
    let outsized = rng.chance(1, 24) && !cfg!(miri);
    let n_steps = if outsized {
        60 + rng.below(100)
    } else {
        match rng.below(20) {
            0..=7 => 2 + rng.below(6),
            8..=16 => 6 + rng.below(14),
            _ => 20 + rng.below(21),
        }
    };
    let config = Config {
        flavour,
        unique: rng.chance(2, 5),
        initial: if rng.chance(1, 6) { crate::track::OV(0, 0, 0) } else { val(rng) },
        audit_every_step: rng.chance(if prop == "C02" { 3 } else { 1 }, 4),
        counts: flavour == Flavour::Sync || prop == "C19",
        adopt_unexpected_upgrade: prop == "C19" || (prop == "C01" && rng.chance(1, 2)),
        reopen_on_adopt: prop == "C01",
        same_waker_mask: if rng.chance(1, 2) { rng.below(256) as u8 } else { 0 },
        teardown: rng.next_u64() >> 16,
    };
    // per-run weights (swarm)
    let handle_heavy = matches!(prop, "C03" | "C19") || rng.chance(1, 5);
    let mut w = [
        16u32,                                 // 0 setters
        8,                                     // 1 conditional setters
        6,                                     // 2 update / update_if
        5,                                     // 3 guard sessions / read hold
        3,                                     // 4 owner get/read
        if handle_heavy { 14 } else { 4 },     // 5 clone / drop owner
        if handle_heavy { 10 } else { 3 },     // 6 weak ops
        if handle_heavy { 4 } else { 2 },      // 7 into_shared
        if prop == "C02" { 12 } else { 8 },    // 8 subscribe
        14,                                    // 9 explicit polls (any flavour, may be spurious)
        6,                                     // 10 next_now / get / read / reset
        5,                                     // 11 sub clone / drop
        3,                                     // 12 settle
    ];
    for x in w.iter_mut() {
        if rng.chance(1, 6) {
            *x = 0;
        }
    }
    w[0] = w[0].max(4);
    w[8] = w[8].max(3);
    if outsized {
        w[8] *= 3;
        w[5] += 4;
        w[6] += 4;
    }
    let (hi, hj) = if outsized { (12, 20) } else { (5, 6) };
    let eager = *rng.pick(&[0usize, 0, 1, 2, 3]);
    let mut steps = Vec::new();
    if rng.chance(3, 4) {
        steps.push(if rng.chance(1, 3) { Step::SubscribeReset(0) } else { Step::Subscribe(0) });
    }
    while steps.len() < n_steps {
        let i = rng.below(hi);
        let j = rng.below(hj);
        let mut owner_step = true;
        let s = match rng.weighted(&w) {
            0 => match rng.below(4) {
                0 => Step::Take(i),
                _ => Step::Set(i, val(rng)),
            },
            1 => {
                if rng.chance(1, 2) {
                    Step::SetIfNotEq(i, val(rng))
                } else {
                    Step::SetIfHashNotEq(i, val(rng))
                }
            }
            2 => {
                if rng.chance(1, 2) {
                    Step::Update(i, rng.below(4) as u8)
                } else {
                    Step::UpdateIf(i, rng.below(4) as u8, rng.chance(1, 2))
                }
            }
            3 if flavour == Flavour::Async && rng.chance(1, 4) => Step::PollUnderWrite(i, j, rng.below(3) as u8),
            3 => {
                if rng.chance(3, 4) {
                    Step::Guard(i, guard_ops(rng))
                } else if rng.chance(1, 2) {
                    Step::ReadHold(i)
                } else {
                    Step::CountsGuarded(i, rng.below(4) as u8, rng.below(4) as u8)
                }
            }
            4 if outsized && rng.chance(1, 3) => {
                let big = |rng: &mut Rng| match rng.below(8) {
                    0 => 0,
                    1..=4 => rng.below(40) as u32,
                    5 | 6 => 60 + rng.below(300) as u32,
                    _ => 65_530 + rng.below(4_000) as u32,
                };
                Step::Burst(i, big(rng), big(rng), big(rng))
            }
            4 => {
                if rng.chance(1, 2) {
                    Step::Get(i)
                } else {
                    Step::Read(i)
                }
            }
            5 => {
                if handle_heavy && rng.chance(1, 6) {
                    Step::CountsGuarded(i, rng.below(4) as u8, rng.below(4) as u8)
                } else if rng.chance(2, 5) {
                    Step::CloneOwner(i)
                } else {
                    Step::DropOwner(i)
                }
            }
            6 => match rng.below(8) {
                0..=2 => Step::Downgrade(i),
                3 | 4 => Step::UpgradeKeep(i),
                5 => Step::UpgradeDrop(i),
                6 => Step::WeakClone(i),
                _ => Step::WeakDrop(i),
            },
            7 => Step::IntoShared,
            8 => {
                if rng.chance(1, 3) {
                    Step::SubscribeReset(i)
                } else {
                    Step::Subscribe(i)
                }
            }
            9 => {
                owner_step = false;
                match rng.below(3) {
                    0 => Step::PollNext(j),
                    1 => Step::PollStream(j),
                    _ => Step::PollNextRef(j),
                }
            }
            10 => {
                owner_step = false;
                match rng.below(5) {
                    0 => Step::NextNow(j),
                    1 => Step::NextRefNow(j),
                    2 => Step::SubGet(j),
                    3 => Step::SubRead(j),
                    _ => Step::SubReset(j),
                }
            }
            11 => {
                owner_step = false;
                match rng.below(6) {
                    0 => Step::SubClone(j),
                    1 => Step::SubCloneReset(j),
                    2 | 3 => Step::Park(j),
                    _ => Step::SubDrop(j),
                }
            }
            _ => {
                owner_step = false;
                Step::Settle
            }
        };
        steps.push(s);
        if owner_step {
            for _ in 0..eager {
                if rng.chance(2, 3) {
                    steps.push(Step::PollWoken(rng.below(4), rng.below(3) as u8));
                }
            }
        }
    }
    Case { config, steps }
}

pub mod acheck;
pub mod asyncsim;
pub mod backend;
pub mod check;
pub mod exec;
pub mod gen;
pub mod model;
pub mod steps;

//! Reference model of an observable and its subscribers (DESIGN.md §4.1): the statement of C01/C03/C19.

use super::steps::upd;
use crate::track::OV;

#[derive(Clone, Debug, PartialEq, Eq)]
pub enum Exp {
    End,
    Value(OV),
    Pending,
}

#[derive(Clone, Debug)]
pub struct Model {
    pub value: OV,
    /// counts notifying updates; starts at 1
    pub version: u64,
    pub closed: bool,
    pub owners: usize,
    pub weaks: usize,
    /// per subscriber: version it has observed (0 = reset / nothing observed); None = dropped
    pub subs: Vec<Option<u64>>,
}

impl Model {
    pub fn new(v: OV) -> Self {
        Model { value: v, version: 1, closed: false, owners: 1, weaks: 0, subs: Vec::new() }
    }
    pub fn live_subs(&self) -> usize {
        self.subs.iter().filter(|s| s.is_some()).count()
    }
    pub fn set(&mut self, v: OV) -> OV {
        self.version += 1;
        std::mem::replace(&mut self.value, v)
    }
    pub fn set_if_not_eq(&mut self, v: OV) -> Option<OV> {
        if !self.value.sem_eq(&v) {
            Some(self.set(v))
        } else {
            None
        }
    }
    pub fn set_if_hash_not_eq(&mut self, v: OV) -> Option<OV> {
        // the value type hashes its key only
        if self.value.0 != v.0 {
            Some(self.set(v))
        } else {
            None
        }
    }
    pub fn take(&mut self) -> OV {
        self.set(OV(0, 0, 0))
    }
    pub fn update(&mut self, t: u8) {
        self.value = upd(self.value, t);
        self.version += 1;
    }
    /// the closure always mutates and returns `notify`
    pub fn update_if(&mut self, t: u8, notify: bool) {
        self.value = upd(self.value, t);
        if notify {
            self.version += 1;
        }
    }
    pub fn subscribe(&mut self, reset: bool) -> usize {
        self.subs.push(Some(if reset { 0 } else { self.version }));
        self.subs.len() - 1
    }
    pub fn poll(&mut self, j: usize) -> Exp {
        let obs = self.subs[j].as_mut().expect("live");
        if self.closed {
            Exp::End
        } else if *obs < self.version {
            *obs = self.version;
            Exp::Value(self.value)
        } else {
            Exp::Pending
        }
    }
    pub fn next_now(&mut self, j: usize) -> OV {
        // marks as observed; after the end the version is "closed", which can never be exceeded
        *self.subs[j].as_mut().expect("live") = self.version;
        self.value
    }
    pub fn drop_owner(&mut self) {
        self.owners -= 1;
        if self.owners == 0 {
            self.closed = true;
        }
    }
}

#[cfg(test)]
mod tests {
    use super::*;

    #[test]
    fn model_follows_the_statement_of_c01() {
        let mut m = Model::new(OV(1, 1, 1));
        let a = m.subscribe(false);
        let r = m.subscribe(true);
        assert_eq!(m.poll(a), Exp::Pending);
        assert_eq!(m.poll(r), Exp::Value(OV(1, 1, 1)), "a reset subscriber yields the current value once");
        assert_eq!(m.poll(r), Exp::Pending);
        assert_eq!(m.set_if_not_eq(OV(1, 1, 9)), None, "equal by Eq (the tag is invisible): nothing changes");
        assert_eq!(m.value, OV(1, 1, 1));
        assert_eq!(m.set_if_hash_not_eq(OV(1, 2, 3)), None, "same key = same hash");
        assert_eq!(m.set_if_not_eq(OV(1, 2, 3)), Some(OV(1, 1, 1)));
        m.update_if(1, false);
        assert_ne!(m.value, OV(1, 2, 3), "update_if may mutate silently");
        let v = m.value;
        assert_eq!(m.poll(a), Exp::Value(v), "one notifying update is pending for a, intermediate values are skipped");
        assert_eq!(m.poll(a), Exp::Pending);
        assert_eq!(m.next_now(r), v);
        assert_eq!(m.poll(r), Exp::Pending, "next_now marks as observed");
        m.drop_owner();
        assert_eq!(m.poll(a), Exp::End);
        assert_eq!(m.poll(a), Exp::End);
    }
}

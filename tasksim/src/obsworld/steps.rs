//! Step vocabulary of the observable world (DESIGN.md Appendix A): owners `O<i>`, weak refs `K<i>`,
//! subscribers `S<j>`. Indices select the i-th live handle (modulo the number of live handles).

use crate::track::OV;
use serde::{Deserialize, Serialize};

#[derive(Clone, Debug, Serialize, Deserialize, PartialEq, Eq)]
pub enum GuardOp {
    Set(OV),
    SetIfNotEq(OV),
    SetIfHashNotEq(OV),
    Take,
    Update(u8),
    UpdateIf(u8, bool),
    /// try_read / try_write on another path while the write guard is held: must not succeed
    TryReadWhileHeld,
    TryWriteWhileHeld,
    Deref,
}

#[derive(Clone, Debug, Serialize, Deserialize, PartialEq, Eq)]
pub enum Step {
    // --- owner handles
    Set(usize, OV),
    SetIfNotEq(usize, OV),
    SetIfHashNotEq(usize, OV),
    Take(usize),
    Update(usize, u8),
    UpdateIf(usize, u8, bool),
    /// write guard taken and released within the step (SharedObservable only)
    Guard(usize, Vec<GuardOp>),
    /// read guard taken; try_write must fail, try_read must succeed; released within the step
    ReadHold(usize),
    /// the handle counts are read while `.1` read guards taken through the owner and one read guard
    /// of each of the first `.2` live subscribers are alive (nothing is pending: a quiescent moment)
    CountsGuarded(usize, u8, u8),
    /// `.1` clones, `.2` subscribers and `.3` weak references of owner `.0` are created, the handle
    /// counts are read (C19) and an `upgrade` is tried while they are all alive, then all of them are
    /// dropped again and the counts are read once more (SharedObservable only). Sizes go far beyond
    /// what the other steps reach (hundreds, sometimes 70 000: a counter narrower than `usize`).
    Burst(usize, u32, u32, u32),
    /// Async flavour only: a write guard is taken through owner `.0` and, while it is alive,
    /// subscriber `.1` is polled once (flavour `.2`; it must report Pending) and the handle counts
    /// are read; the guard is released unused, the counts are read again, and the subscriber is
    /// polled again (it must be woken by the release if it has something to deliver — C16).
    PollUnderWrite(usize, usize, u8),
    Get(usize),
    Read(usize),
    CloneOwner(usize),
    DropOwner(usize),
    Downgrade(usize),
    IntoShared,
    Subscribe(usize),
    SubscribeReset(usize),
    // --- weak references
    UpgradeKeep(usize),
    UpgradeDrop(usize),
    WeakClone(usize),
    WeakDrop(usize),
    // --- subscribers
    PollNext(usize),
    PollStream(usize),
    PollNextRef(usize),
    NextNow(usize),
    NextRefNow(usize),
    SubGet(usize),
    SubRead(usize),
    SubReset(usize),
    SubClone(usize),
    SubCloneReset(usize),
    SubDrop(usize),
    /// The subscriber is moved into a task whose waker owns it (`Arc<Task>: Wake`), polled once,
    /// and — if it is Pending — abandoned by the executor: from then on only the waker registered
    /// inside the observable keeps the task (and its subscriber) alive, until the next notifying
    /// update or the close drains the waker list.
    Park(usize),
    /// poll the k-th runnable subscriber (woken, never polled, or last poll was Ready) with the
    /// poll flavour given
    PollWoken(usize, u8),
    Settle,
}

impl Step {
    pub fn kind_code(&self) -> u64 {
        use Step::*;
        match self {
            Set(..) => 1,
            SetIfNotEq(..) => 2,
            SetIfHashNotEq(..) => 3,
            Take(_) => 4,
            Update(..) => 5,
            UpdateIf(_, _, b) => 6 + *b as u64 * 50,
            Guard(_, ops) => 7 + 64 * ops.len() as u64,
            ReadHold(_) => 8,
            CountsGuarded(_, a, b) => 35 + 64 * (*a as u64 * 4 + *b as u64),
            Burst(_, a, b, c) => 36 + 64 * ((*a > 255) as u64 * 4 + (*b > 255) as u64 * 2 + (*c > 255) as u64),
            PollUnderWrite(_, _, f) => 37 + 64 * *f as u64,
            Get(_) => 9,
            Read(_) => 10,
            CloneOwner(_) => 11,
            DropOwner(_) => 12,
            Downgrade(_) => 13,
            IntoShared => 14,
            Subscribe(_) => 15,
            SubscribeReset(_) => 16,
            UpgradeKeep(_) => 17,
            UpgradeDrop(_) => 18,
            WeakClone(_) => 19,
            WeakDrop(_) => 20,
            PollNext(_) => 21,
            PollStream(_) => 22,
            PollNextRef(_) => 23,
            NextNow(_) => 24,
            NextRefNow(_) => 25,
            SubGet(_) => 26,
            SubRead(_) => 27,
            SubReset(_) => 28,
            SubClone(_) => 29,
            SubCloneReset(_) => 30,
            SubDrop(_) => 31,
            Park(_) => 34,
            PollWoken(..) => 32,
            Settle => 33,
        }
    }
}

#[derive(Clone, Copy, Debug, Serialize, Deserialize, PartialEq, Eq)]
pub enum Flavour {
    Sync,
    Async,
}

#[derive(Clone, Debug, Serialize, Deserialize, PartialEq, Eq)]
pub struct Config {
    pub flavour: Flavour,
    /// start with a unique `Observable` (true) or a `SharedObservable` (false)
    pub unique: bool,
    pub initial: OV,
    /// re-poll every armed, un-woken subscriber after every owner step (must stay Pending)
    pub audit_every_step: bool,
    /// evaluate the handle-count oracle (C19) after every step
    #[serde(default)]
    pub counts: bool,
    /// C19 runs: an upgrade that succeeds although no owner exists (a C03 matter, reported by C03's
    /// check) does not end the run; the unexpected handle is adopted as a live clone and the count
    /// oracle keeps judging.
    #[serde(default)]
    pub adopt_unexpected_upgrade: bool,
    /// C01 runs: the adopted handle re-opens the model (an owner exists again), so that what is
    /// written through it is expected to reach the subscribers.
    #[serde(default)]
    pub reopen_on_adopt: bool,
    /// bit k set: the k-th (mod 8) subscriber created is polled with one and the same waker every
    /// time instead of a fresh one per poll
    #[serde(default)]
    pub same_waker_mask: u8,
    pub teardown: u64,
}

#[derive(Clone, Debug, Serialize, Deserialize, PartialEq, Eq)]
pub struct Case {
    pub config: Config,
    pub steps: Vec<Step>,
}

/// The value an `update(t)` closure computes from `v` — any lost or reordered update changes it.
pub fn upd(v: OV, t: u8) -> OV {
    OV((v.0 + (t & 1)) % 3, (v.1 * 2 + 1 + t as u32) % 5, v.2)
}

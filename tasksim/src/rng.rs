//! The one PRNG every simulated choice is derived from: xoshiro256** seeded by SplitMix64.
//! No other source of randomness exists in the simulator; logging never draws from it.

#[derive(Clone, Debug)]
pub struct Rng {
    s: [u64; 4],
}

pub fn splitmix64(state: &mut u64) -> u64 {
    *state = state.wrapping_add(0x9E37_79B9_7F4A_7C15);
    let mut z = *state;
    z = (z ^ (z >> 30)).wrapping_mul(0xBF58_476D_1CE4_E5B9);
    z = (z ^ (z >> 27)).wrapping_mul(0x94D0_49BB_1331_11EB);
    z ^ (z >> 31)
}

impl Rng {
    /// Derive the generator of run `run` of the batch seeded with `seed` for domain `domain`
    /// (a small integer naming the world / property family, so different checks sharing a seed
    /// do not share a stream).
    pub fn for_run(seed: u64, domain: u64, run: u64) -> Self {
        let mut st = seed ^ domain.wrapping_mul(0xA076_1D64_78BD_642F);
        let _ = splitmix64(&mut st);
        st ^= run.wrapping_mul(0xE703_7ED1_A0B4_28DB);
        let s = [splitmix64(&mut st), splitmix64(&mut st), splitmix64(&mut st), splitmix64(&mut st)];
        Rng { s }
    }

    pub fn next_u64(&mut self) -> u64 {
        let result = self.s[1].wrapping_mul(5).rotate_left(7).wrapping_mul(9);
        let t = self.s[1] << 17;
        self.s[2] ^= self.s[0];
        self.s[3] ^= self.s[1];
        self.s[1] ^= self.s[2];
        self.s[0] ^= self.s[3];
        self.s[2] ^= t;
        self.s[3] = self.s[3].rotate_left(45);
        result
    }

    /// Uniform in 0..n (n > 0).
    pub fn below(&mut self, n: usize) -> usize {
        debug_assert!(n > 0);
        ((self.next_u64() >> 11) % (n as u64)) as usize
    }

    /// Uniform in lo..=hi.
    pub fn range(&mut self, lo: usize, hi: usize) -> usize {
        lo + self.below(hi - lo + 1)
    }

    /// True with probability num/den.
    pub fn chance(&mut self, num: usize, den: usize) -> bool {
        self.below(den) < num
    }

    pub fn pick<'a, T>(&mut self, xs: &'a [T]) -> &'a T {
        &xs[self.below(xs.len())]
    }

    /// Pick an index according to integer weights (at least one weight must be non-zero).
    pub fn weighted(&mut self, weights: &[u32]) -> usize {
        let total: u64 = weights.iter().map(|&w| w as u64).sum();
        debug_assert!(total > 0);
        let mut x = (self.next_u64() >> 11) % total;
        for (i, &w) in weights.iter().enumerate() {
            if x < w as u64 {
                return i;
            }
            x -= w as u64;
        }
        weights.len() - 1
    }
}

/// FNV-1a style running fingerprint of a run's realised event sequence.
#[derive(Clone, Copy, Debug)]
pub struct Fingerprint(pub u64);

impl Default for Fingerprint {
    fn default() -> Self {
        Fingerprint(0xcbf2_9ce4_8422_2325)
    }
}

impl Fingerprint {
    pub fn add(&mut self, x: u64) {
        let mut h = self.0;
        for b in x.to_le_bytes() {
            h ^= b as u64;
            h = h.wrapping_mul(0x0000_0100_0000_01B3);
        }
        self.0 = h;
    }
}

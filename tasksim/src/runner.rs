//! Batch runner (seeded search over runs), minimiser, replay files and evidence.

use crate::common::{Counters, Outcome, Violation};
use crate::rng::Rng;
use serde::{de::DeserializeOwned, Deserialize, Serialize};
use std::collections::HashSet;
use std::sync::atomic::{AtomicBool, AtomicU64, Ordering};
use std::sync::Mutex;
use std::time::{Duration, Instant};

/// A family of simulated runs deciding one property.
pub trait Check: Sync {
    type Case: Clone + Serialize + DeserializeOwned + Send + PartialEq;
    fn prop(&self) -> &str;
    fn world(&self) -> &'static str;
    /// PRNG domain, so that checks sharing VERIF_SEED do not share a stream.
    fn domain(&self) -> u64;
    fn gen(&self, rng: &mut Rng) -> Self::Case;
    fn exec(&self, case: &Self::Case) -> Outcome;
    fn len(&self, case: &Self::Case) -> usize;
    /// The case without steps `from..to`.
    fn remove_range(&self, case: &Self::Case, from: usize, to: usize) -> Self::Case;
    /// One-step simpler variants (smaller arguments, fewer stages, smaller capacity ...).
    fn simplifications(&self, case: &Self::Case) -> Vec<Self::Case>;
    /// A compact rendering for evidence samples.
    fn sample(&self, case: &Self::Case) -> serde_json::Value {
        serde_json::to_value(case).unwrap()
    }
}

#[derive(Clone, Debug)]
pub struct BatchCfg {
    pub seed: u64,
    pub max_runs: u64,
    pub time_limit: Option<Duration>,
    pub jobs: usize,
}

pub struct Found<C> {
    pub run: u64,
    pub case: C,
    pub violation: Violation,
}

pub struct BatchResult<C> {
    pub runs: u64,
    pub steps: u64,
    pub counters: Counters,
    pub distinct: u64,
    pub distinct_nontrivial: u64,
    pub nontrivial_runs: u64,
    pub found: Option<Found<C>>,
    /// Violations of oracles that belong to other properties (reported by those properties' checks).
    pub foreign: u64,
    pub foreign_example: Option<(u64, Violation)>,
    pub wall: Duration,
    pub samples: Vec<(u64, C)>,
    pub fingerprint_cap_hit: bool,
}

const CHUNK: u64 = 256;
const FP_CAP: usize = 1_500_000;

pub fn run_batch<K: Check>(check: &K, cfg: &BatchCfg) -> BatchResult<K::Case> {
    let start = Instant::now();
    let next = AtomicU64::new(0);
    // lowest run index with a violation found so far (u64::MAX = none)
    let best = AtomicU64::new(u64::MAX);
    let stop = AtomicBool::new(false);
    struct Acc<C> {
        runs: u64,
        steps: u64,
        counters: Counters,
        fps: HashSet<u64>,
        fps_nt: HashSet<u64>,
        nontrivial: u64,
        found: Option<Found<C>>,
        foreign: u64,
        foreign_example: Option<(u64, Violation)>,
        samples: Vec<(u64, C)>,
    }
    let total: Mutex<Vec<Acc<K::Case>>> = Mutex::new(Vec::new());
    std::thread::scope(|s| {
        for _ in 0..cfg.jobs.max(1) {
            s.spawn(|| {
                let mut acc: Acc<K::Case> = Acc {
                    runs: 0,
                    steps: 0,
                    counters: Counters::default(),
                    fps: HashSet::new(),
                    fps_nt: HashSet::new(),
                    nontrivial: 0,
                    found: None,
                    foreign: 0,
                    foreign_example: None,
                    samples: Vec::new(),
                };
                loop {
                    if stop.load(Ordering::Relaxed) {
                        break;
                    }
                    let from = next.fetch_add(CHUNK, Ordering::Relaxed);
                    if from >= cfg.max_runs || from > best.load(Ordering::Relaxed) {
                        break;
                    }
                    if let Some(tl) = cfg.time_limit {
                        if start.elapsed() > tl {
                            stop.store(true, Ordering::Relaxed);
                            break;
                        }
                    }
                    for run in from..(from + CHUNK).min(cfg.max_runs) {
                        if run > best.load(Ordering::Relaxed) {
                            break;
                        }
                        let mut rng = Rng::for_run(cfg.seed, check.domain(), run);
                        let case = check.gen(&mut rng);
                        let out = check.exec(&case);
                        acc.runs += 1;
                        acc.steps += out.steps;
                        acc.counters.merge(&out.counters);
                        if acc.fps.len() < FP_CAP {
                            acc.fps.insert(out.fingerprint);
                        }
                        if out.nontrivial {
                            acc.nontrivial += 1;
                            if acc.fps_nt.len() < FP_CAP {
                                acc.fps_nt.insert(out.fingerprint);
                            }
                        }
                        // a few sample cases for the evidence: fixed run indices
                        if run < 3 || (out.nontrivial && acc.samples.len() < 2 && run % 997 == 0) {
                            acc.samples.push((run, case.clone()));
                        }
                        if let Some(v) = out.violation {
                            if v.concerns(check.prop()) {
                                best.fetch_min(run, Ordering::Relaxed);
                                if acc.found.as_ref().map_or(true, |f| run < f.run) {
                                    acc.found = Some(Found { run, case, violation: v });
                                }
                                break;
                            } else {
                                acc.foreign += 1;
                                if acc.foreign_example.as_ref().map_or(true, |f| run < f.0) {
                                    acc.foreign_example = Some((run, v));
                                }
                            }
                        }
                    }
                }
                total.lock().unwrap().push(acc);
            });
        }
    });
    let accs = total.into_inner().unwrap();
    let mut res = BatchResult {
        runs: 0,
        steps: 0,
        counters: Counters::default(),
        distinct: 0,
        distinct_nontrivial: 0,
        nontrivial_runs: 0,
        found: None,
        foreign: 0,
        foreign_example: None,
        wall: Duration::ZERO,
        samples: Vec::new(),
        fingerprint_cap_hit: false,
    };
    let mut fps: HashSet<u64> = HashSet::new();
    let mut fps_nt: HashSet<u64> = HashSet::new();
    for a in accs {
        res.runs += a.runs;
        res.steps += a.steps;
        res.counters.merge(&a.counters);
        res.nontrivial_runs += a.nontrivial;
        res.foreign += a.foreign;
        if let Some(f) = a.foreign_example {
            if res.foreign_example.as_ref().map_or(true, |g| f.0 < g.0) {
                res.foreign_example = Some(f);
            }
        }
        if a.fps.len() >= FP_CAP || a.fps_nt.len() >= FP_CAP {
            res.fingerprint_cap_hit = true;
        }
        fps.extend(a.fps);
        fps_nt.extend(a.fps_nt);
        if let Some(f) = a.found {
            if res.found.as_ref().map_or(true, |g| f.run < g.run) {
                res.found = Some(f);
            }
        }
        res.samples.extend(a.samples);
    }
    res.samples.sort_by_key(|s| s.0);
    res.samples.truncate(4);
    res.distinct = fps.len() as u64;
    res.distinct_nontrivial = fps_nt.len() as u64;
    res.wall = start.elapsed();
    res
}

/// Shrink a failing case while the same oracle on the same stage still fires for the property.
pub fn minimise<K: Check>(check: &K, case: &K::Case, v: &Violation) -> (K::Case, Violation, u64) {
    let class = v.class();
    let mut evals = 0u64;
    let mut fails = |c: &K::Case, evals: &mut u64| -> Option<Violation> {
        *evals += 1;
        let out = check.exec(c);
        out.violation.filter(|w| w.class() == class && w.concerns(check.prop()))
    };
    let mut cur = case.clone();
    let mut cur_v = v.clone();
    // ddmin over the step list
    let mut chunk = (check.len(&cur) / 2).max(1);
    loop {
        let mut progressed = false;
        let mut i = 0;
        while i < check.len(&cur) {
            let to = (i + chunk).min(check.len(&cur));
            let cand = check.remove_range(&cur, i, to);
            if let Some(w) = fails(&cand, &mut evals) {
                cur = cand;
                cur_v = w;
                progressed = true;
            } else {
                i = to;
            }
            if evals > 20_000 {
                break;
            }
        }
        if chunk == 1 && !progressed {
            break;
        }
        if !progressed {
            chunk = (chunk / 2).max(1);
        }
        if evals > 20_000 {
            break;
        }
    }
    // argument / configuration simplification to a fixpoint
    let mut rounds = 0;
    'outer: loop {
        rounds += 1;
        if rounds > 200 || evals > 40_000 {
            break;
        }
        for cand in check.simplifications(&cur) {
            if cand == cur {
                continue;
            }
            if let Some(w) = fails(&cand, &mut evals) {
                cur = cand;
                cur_v = w;
                continue 'outer;
            }
        }
        // one more pass of single-step deletion after simplification
        let mut deleted = false;
        let mut i = 0;
        while i < check.len(&cur) {
            let cand = check.remove_range(&cur, i, i + 1);
            if let Some(w) = fails(&cand, &mut evals) {
                cur = cand;
                cur_v = w;
                deleted = true;
            } else {
                i += 1;
            }
        }
        if !deleted {
            break;
        }
    }
    (cur, cur_v, evals)
}

#[derive(Serialize, Deserialize)]
pub struct ReplayFile<C> {
    pub property: String,
    pub engine: String,
    pub world: String,
    pub seed: u64,
    pub run: u64,
    pub original_steps: usize,
    pub minimiser_evaluations: u64,
    pub case: C,
    pub violation: Violation,
}

pub fn evidence_json<K: Check>(
    check: &K,
    tier: &str,
    level: &str,
    seed: u64,
    res: &BatchResult<K::Case>,
    violations: u64,
    extra: serde_json::Value,
) -> serde_json::Value {
    let wall = res.wall.as_secs_f64();
    let mut faults = serde_json::Map::new();
    let mut probes = serde_json::Map::new();
    let mut ops = serde_json::Map::new();
    let mut other = serde_json::Map::new();
    for (k, v) in &res.counters.0 {
        let tgt = if k.starts_with("fault.") {
            &mut faults
        } else if k.starts_with("probe.") {
            &mut probes
        } else if k.starts_with("ops.") {
            &mut ops
        } else {
            &mut other
        };
        tgt.insert(k.clone(), serde_json::json!(v));
    }
    let samples: Vec<serde_json::Value> = res.samples.iter().map(|(run, c)| serde_json::json!({"run": run, "case": check.sample(c)})).collect();
    serde_json::json!({
        "property_id": check.prop(),
        "tier": tier,
        "seed": seed,
        "level": level,
        "coverage": {
            "evaluations": res.runs,
            "distinct_nontrivial": res.distinct_nontrivial,
            "rule": "one evaluation = one simulated run = (seed, run index) -> generated case -> deterministic execution of the real library under the task-level simulator. Two runs are distinct when the hash of their realised event sequence (step kinds, chain shapes, configuration, every poll outcome, retirements) differs; a run is non-trivial when at least one fault fired, at least 3 producer steps ran and at least one item was delivered to a consumer. distinct_nontrivial counts distinct hashes among non-trivial runs (conservative when the per-worker hash set cap is hit).",
            "samples": samples,
            "distinct_interleavings": res.distinct,
            "nontrivial_runs": res.nontrivial_runs,
            "fingerprint_cap_hit": res.fingerprint_cap_hit,
            "simulated_time_steps": res.steps,
            "runs_per_hour": if wall > 0.0 { (res.runs as f64 / wall * 3600.0) as u64 } else { 0 },
            "seeds": { "VERIF_SEED": seed, "run_indices": [0, res.runs] },
            "faults_fired": faults,
            "probes_hit": probes,
            "operations": ops,
            "other_counters": other,
            "foreign_violations": res.foreign,
            "extra": extra,
        },
        "assumptions": [
            "sampling, not proof: a clean batch is evidence over the stated number of seeded runs",
            "real code: eyeball, eyeball-im, eyeball-im-util from /repo's working tree; imbl, tokio::sync::{broadcast,RwLock}, readlock(-tokio), tokio-util as locked in /repo/Cargo.lock",
            "simulated: executor, wakers, task scheduling, poll timing, limit streams (scripted variant), fault placement",
            "no clock, network, disk or allocator faults exist in the system under test; simulated time = scheduler steps",
            "one OS thread per run: std::sync::RwLock is never contended here (thread-level interleavings are ThreadSim's job)"
        ],
        "wall_s": wall,
        "violations": violations,
    })
}

/// Determinism self-test support: a digest of the complete per-run outcomes (fingerprint of the
/// realised event sequence, simulated steps, counters, violation) of runs 0..runs, combined in
/// run-index order. Must not depend on the worker count or the process.
pub fn digest_batch<K: Check>(check: &K, seed: u64, runs: u64, jobs: usize) -> u64 {
    let next = AtomicU64::new(0);
    let out: Mutex<Vec<(u64, u64)>> = Mutex::new(Vec::new());
    std::thread::scope(|s| {
        for _ in 0..jobs.max(1) {
            s.spawn(|| {
                let mut local = Vec::new();
                loop {
                    let from = next.fetch_add(64, Ordering::Relaxed);
                    if from >= runs {
                        break;
                    }
                    for run in from..(from + 64).min(runs) {
                        let mut rng = Rng::for_run(seed, check.domain(), run);
                        let case = check.gen(&mut rng);
                        let o = check.exec(&case);
                        let mut h = crate::rng::Fingerprint::default();
                        h.add(o.fingerprint);
                        h.add(o.steps);
                        h.add(o.nontrivial as u64);
                        for (k, v) in &o.counters.0 {
                            for b in k.bytes() {
                                h.add(b as u64);
                            }
                            h.add(*v);
                        }
                        if let Some(v) = &o.violation {
                            for b in v.oracle.bytes().chain(v.detail.bytes()) {
                                h.add(b as u64);
                            }
                            h.add(v.step as u64);
                        }
                        // generation must be reproducible too
                        for b in serde_json::to_string(&case).unwrap().bytes() {
                            h.add(b as u64);
                        }
                        local.push((run, h.0));
                    }
                }
                out.lock().unwrap().extend(local);
            });
        }
    });
    let mut v = out.into_inner().unwrap();
    v.sort();
    let mut h = crate::rng::Fingerprint::default();
    for (_, d) in v {
        h.add(d);
    }
    h.0
}

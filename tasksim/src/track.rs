//! Instrumented values (C20): every construction, clone and drop of a value handed to the library is
//! recorded in a per-thread registry. A run is executed entirely on one thread.

use serde::{Deserialize, Serialize};
use std::cell::RefCell;
use std::cmp::Ordering;
use std::hash::{Hash, Hasher};

#[derive(Default)]
struct Registry {
    // 0 = never existed, 1 = live, 2 = dropped
    state: Vec<u8>,
    live: usize,
    created: u64,
    cloned: u64,
    dropped: u64,
    errors: Vec<String>,
}

thread_local! {
    static REG: RefCell<Registry> = RefCell::new(Registry::default());
}

pub fn reset() {
    REG.with(|r| {
        let mut r = r.borrow_mut();
        r.state.clear();
        r.live = 0;
        r.created = 0;
        r.cloned = 0;
        r.dropped = 0;
        r.errors.clear();
    });
}

pub fn live() -> usize {
    REG.with(|r| r.borrow().live)
}

pub fn counts() -> (u64, u64, u64) {
    REG.with(|r| {
        let r = r.borrow();
        (r.created, r.cloned, r.dropped)
    })
}

pub fn take_errors() -> Vec<String> {
    REG.with(|r| std::mem::take(&mut r.borrow_mut().errors))
}

pub struct Token(u32);

impl Token {
    pub fn new() -> Self {
        REG.with(|r| {
            let mut r = r.borrow_mut();
            let id = r.state.len() as u32;
            r.state.push(1);
            r.live += 1;
            r.created += 1;
            Token(id)
        })
    }
}

impl Clone for Token {
    fn clone(&self) -> Self {
        REG.with(|r| {
            let mut r = r.borrow_mut();
            let src = self.0 as usize;
            if r.state.get(src).copied() != Some(1) {
                let msg = format!("clone of instance {} which is not live (state {:?})", src, r.state.get(src));
                r.errors.push(msg);
            }
            let id = r.state.len() as u32;
            r.state.push(1);
            r.live += 1;
            r.cloned += 1;
            Token(id)
        })
    }
}

impl Drop for Token {
    fn drop(&mut self) {
        // Must not panic: may run during unwinding.
        let _ = REG.try_with(|r| {
            if let Ok(mut r) = r.try_borrow_mut() {
                let id = self.0 as usize;
                match r.state.get(id).copied() {
                    Some(1) => {
                        r.state[id] = 2;
                        r.live -= 1;
                        r.dropped += 1;
                    }
                    other => {
                        let msg = format!("drop of instance {} in state {:?} (double drop or unknown instance)", id, other);
                        r.errors.push(msg);
                    }
                }
            }
        });
    }
}

impl std::fmt::Debug for Token {
    fn fmt(&self, f: &mut std::fmt::Formatter<'_>) -> std::fmt::Result {
        write!(f, "#{}", self.0)
    }
}

/// Plain-data identity of a vector element: what traces, models and replay files contain.
#[derive(Clone, Copy, Debug, PartialEq, Eq, Hash, PartialOrd, Ord, Serialize, Deserialize)]
pub struct V(pub u8, pub u16);

/// The element type handed to ObservableVector: identity `(key, uid)` plus a tracked instance token.
#[derive(Clone, Debug)]
pub struct Elem {
    pub key: u8,
    pub uid: u16,
    _tok: Token,
}

impl Elem {
    pub fn new(v: V) -> Self {
        Elem { key: v.0, uid: v.1, _tok: Token::new() }
    }
    pub fn v(&self) -> V {
        V(self.key, self.uid)
    }
}

impl PartialEq for Elem {
    fn eq(&self, o: &Self) -> bool {
        self.key == o.key && self.uid == o.uid
    }
}
impl Eq for Elem {}
impl PartialOrd for Elem {
    fn partial_cmp(&self, o: &Self) -> Option<Ordering> {
        Some(self.cmp(o))
    }
}
impl Ord for Elem {
    fn cmp(&self, o: &Self) -> Ordering {
        (self.key, self.uid).cmp(&(o.key, o.uid))
    }
}

/// Plain-data identity of an observable's value.
#[derive(Clone, Copy, Debug, PartialEq, Eq, Hash, PartialOrd, Ord, Serialize, Deserialize, Default)]
pub struct OV(pub u8, pub u32, pub u16);

impl OV {
    /// Equality as the stored type's `PartialEq` sees it (the tag is not compared).
    pub fn sem_eq(&self, o: &OV) -> bool {
        self.0 == o.0 && self.1 == o.1
    }
}

/// The value type stored in Observable/SharedObservable: `Hash` looks at `key` only while `Eq`
/// looks at `key` and `payload`, so "differs by equality" and "differs by hash" are distinguishable.
/// `tag` is ignored by both, so two equal values are still distinguishable by the harness ("change
/// nothing" for an equal value means the stored instance is the old one).
#[derive(Clone, Debug)]
pub struct OVal {
    pub key: u8,
    pub payload: u32,
    pub tag: u16,
    _tok: Token,
}

impl OVal {
    pub fn new(v: OV) -> Self {
        OVal { key: v.0, payload: v.1, tag: v.2, _tok: Token::new() }
    }
    pub fn v(&self) -> OV {
        OV(self.key, self.payload, self.tag)
    }
}
impl Default for OVal {
    fn default() -> Self {
        OVal::new(OV(0, 0, 0))
    }
}
impl PartialEq for OVal {
    fn eq(&self, o: &Self) -> bool {
        self.key == o.key && self.payload == o.payload
    }
}
impl Eq for OVal {}
impl Hash for OVal {
    fn hash<H: Hasher>(&self, state: &mut H) {
        self.key.hash(state);
    }
}

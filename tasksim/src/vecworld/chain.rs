//! Builds a consumer's chain of real adapters with taps between the stages.

use super::steps::{LimKind, LimSpec, StageSpec};
use super::tap::*;
use super::view::keep;
use crate::track::{Elem, V};
use eyeball::Observable;
use eyeball_im_util::vector::{VectorObserver, VectorObserverExt};
use futures_core::Stream;
use imbl::Vector;
use std::cell::RefCell;
use std::cmp::Reverse;
use std::rc::Rc;

/// The thing a limit writer writes to: an `eyeball::Observable<usize>` (possibly observed by the
/// limit subscribers of several stages / consumers) or a scripted stream.
pub struct LimitSource {
    pub obs: Option<Observable<usize>>,
    pub script: Option<Rc<RefCell<Script>>>,
    pub value: usize,
    pub alive: bool,
}

/// Harness-side state of one dynamic stage's limit input.
pub struct LimitWriter {
    pub kind: LimKind,
    pub src: usize,
    /// Latest limit announced to the stage, by the definition of the limit source — independent of
    /// what the adapter has pulled.
    pub announced: Option<usize>,
    /// Latest limit announced after the stage's input stream had ended (optional for the stage).
    pub late: Vec<usize>,
    /// Announced while the stage's consumer is in the middle of a poll (F8): optional until that
    /// poll has returned, then it becomes `announced`.
    pub during_poll: Vec<usize>,
    pub tap: Rc<RefCell<LimTapState>>,
    pub consumer: usize,
}

pub struct Group {
    /// One stage, or an adapter-as-observer stage fused with its successor. The second component is
    /// the index of the stage's limit writer.
    pub stages: Vec<(StageSpec, Option<usize>)>,
}

pub struct Built<I: DiffItem> {
    pub stream: BoxS<I>,
    pub taps: Vec<Rc<RefCell<TapState>>>,
    pub groups: Vec<Group>,
}

fn map_elem(e: Elem) -> Elem {
    Elem::new(V(e.key ^ 4, e.uid))
}

fn make_limit(
    spec: LimSpec,
    base: usize,
    is_tail: bool,
    input: &Rc<RefCell<TapState>>,
    upstream: Option<(StageSpec, Rc<RefCell<LimTapState>>)>,
    env: &Env,
    cs: &Rc<ConsumerShared>,
    limits: &mut Limits,
) -> (BoxL, usize) {
    let st = Rc::new(RefCell::new(LimTapState { pulled: None, base, last: PollRes::NotPolled, epoch: 0, is_tail, input_ended: false, in_effect: Vec::new(), in_effect_epoch: u64::MAX, pulled_hist: vec![None] }));
    let (inner, src, announced): (BoxL, usize, Option<usize>) = match spec.kind {
        LimKind::EyeballSubscribe | LimKind::EyeballSubscribeReset => {
            // share an existing live eyeball source if asked to, else create one
            let shared = spec.share.and_then(|i| {
                let n = limits.sources.len();
                if n == 0 {
                    return None;
                }
                let i = i % n;
                (limits.sources[i].alive && limits.sources[i].obs.is_some()).then_some(i)
            });
            let src = match shared {
                Some(i) => {
                    env.borrow_mut().counters.inc("probe.limit_source_shared");
                    i
                }
                None => {
                    limits.sources.push(LimitSource { obs: Some(Observable::new(spec.initial)), script: None, value: spec.initial, alive: true });
                    limits.sources.len() - 1
                }
            };
            let obs = limits.sources[src].obs.as_ref().unwrap();
            let reset = spec.kind == LimKind::EyeballSubscribeReset;
            let sub = if reset { Observable::subscribe_reset(obs) } else { Observable::subscribe(obs) };
            (Box::pin(sub), src, if reset { Some(limits.sources[src].value) } else { None })
        }
        LimKind::Scripted => {
            let script = Rc::new(RefCell::new(Script::default()));
            limits.sources.push(LimitSource { obs: None, script: Some(script.clone()), value: spec.initial, alive: true });
            (Box::pin(ScriptStream(script)), limits.sources.len() - 1, None)
        }
    };
    let idx = limits.writers.len();
    limits.writers.push(LimitWriter { kind: spec.kind, src, announced, late: Vec::new(), during_poll: Vec::new(), tap: st.clone(), consumer: cs.id });
    let tap = LimitTap { inner, st, input: input.clone(), upstream, env: env.clone(), cs: cs.clone() };
    (Box::pin(tap), idx)
}

#[derive(Default)]
pub struct Limits {
    pub sources: Vec<LimitSource>,
    pub writers: Vec<LimitWriter>,
}

/// Apply one (non-fused) stage to any observer. Generic over the observer so that the
/// adapter-as-observer path (`Head/Tail/Skip::into_parts`) is instantiated with the adapter itself.
fn apply_stage<I, O>(obs: O, spec: StageSpec, lim: Option<BoxL>) -> (Vector<Elem>, BoxS<I>)
where
    I: DiffItem,
    O: VectorObserver<Elem>,
    O::Stream: Stream<Item = I> + 'static,
{
    use StageSpec::*;
    match spec {
        Head(n) => {
            let (v, s) = obs.head(n);
            (v, Box::pin(s))
        }
        Tail(n) => {
            let (v, s) = obs.tail(n);
            (v, Box::pin(s))
        }
        Skip(n) => {
            let (v, s) = obs.skip(n);
            (v, Box::pin(s))
        }
        DynHead(_) | ObsDynHead(_) => (Vector::new(), Box::pin(obs.dynamic_head(lim.unwrap()))),
        DynTail(_) | ObsDynTail(_) => (Vector::new(), Box::pin(obs.dynamic_tail(lim.unwrap()))),
        DynSkip(_) | ObsDynSkip(_) => (Vector::new(), Box::pin(obs.dynamic_skip(lim.unwrap()))),
        DynHeadInit(n, _) | ObsDynHeadInit(n, _) => {
            let (v, s) = obs.dynamic_head_with_initial_value(n, lim.unwrap());
            (v, Box::pin(s))
        }
        DynTailInit(n, _) | ObsDynTailInit(n, _) => {
            let (v, s) = obs.dynamic_tail_with_initial_value(n, lim.unwrap());
            (v, Box::pin(s))
        }
        DynSkipInit(n, _) | ObsDynSkipInit(n, _) => {
            let (v, s) = obs.dynamic_skip_with_initial_count(n, lim.unwrap());
            (v, Box::pin(s))
        }
        Filter(m) => {
            let (v, s) = obs.filter(move |e: &Elem| keep(m, e.key));
            (v, Box::pin(s))
        }
        FilterMap(m) => {
            let (v, s) = obs.filter_map(move |e: Elem| if keep(m, e.key) { Some(map_elem(e)) } else { None });
            (v, box_mapped::<I, _>(s))
        }
        Sort => {
            let (v, s) = obs.sort();
            (v, Box::pin(s))
        }
        SortBy => {
            let (v, s) = obs.sort_by(|a: &Elem, b: &Elem| a.key.cmp(&b.key));
            (v, Box::pin(s))
        }
        SortByKey => {
            let (v, s) = obs.sort_by_key(|e: &Elem| Reverse(e.key));
            (v, Box::pin(s))
        }
    }
}

/// `FilterMap`'s item type is the container family's member for the mapped element type; with the
/// element type mapped to itself that is `I` again, which the compiler can see through the
/// `VectorDiffContainer::Family` bound.
fn box_mapped<I: DiffItem, S: Stream<Item = I> + 'static>(s: S) -> BoxS<I> {
    Box::pin(s)
}

pub fn build_chain<I: DiffItem>(
    values: Vector<Elem>,
    raw: BoxS<I>,
    chain: &[StageSpec],
    env: &Env,
    cs: &Rc<ConsumerShared>,
    limits: &mut Limits,
) -> Built<I> {
    let mut taps: Vec<Rc<RefCell<TapState>>> = Vec::new();
    let mut groups = Vec::new();

    let mut t0 = TapState::new(0, I::BATCHED, values.clone());
    {
        let w = env.borrow();
        t0.raw = Some(RawInfo { cursor: w.msgs.len(), partial: 0, bidx: w.boundaries.len() - 1, saw_reset: false, just_finished_batch: false });
    }
    t0.record = true;
    t0.feeds_sort = feeds_sort_of(chain.first());
    let t0 = Rc::new(RefCell::new(t0));
    taps.push(t0.clone());
    let mut cur_values = values;
    let mut cur: BoxS<I> = Box::pin(Tap { inner: raw, st: t0, env: env.clone(), cs: cs.clone() });

    let mut i = 0;
    while i < chain.len() {
        let input = taps.last().unwrap().clone();
        let spec = chain[i];
        // Not fused with a Sort or Tail stage: the known findings KF-D6 / KF-D5 are identified by a
        // trigger over that stage's *input*, which only a tap on the input can observe exactly (the
        // upstream adapter may have emitted half of a diff pair). Those pairs run with a tap in
        // between instead (the first stage then goes through the (values, stream) path).
        let fused = spec.is_obs() && i + 1 < chain.len() && !chain[i + 1].is_obs() && !chain[i + 1].is_sort() && !chain[i + 1].is_tail();
        let mut stages = Vec::new();
        let mk = |s: StageSpec, upstream: Option<(StageSpec, Rc<RefCell<LimTapState>>)>, limits: &mut Limits| -> (Option<BoxL>, Option<usize>) {
            match s.lim() {
                Some(l) => {
                    let base = match s {
                        StageSpec::DynHeadInit(n, _) | StageSpec::DynTailInit(n, _) | StageSpec::DynSkipInit(n, _) => n,
                        StageSpec::ObsDynHeadInit(n, _) | StageSpec::ObsDynTailInit(n, _) | StageSpec::ObsDynSkipInit(n, _) => n,
                        _ => 0,
                    };
                    let (b, idx) = make_limit(l, base, s.is_tail(), &input, upstream, env, cs, limits);
                    (Some(b), Some(idx))
                }
                None => (None, None),
            }
        };
        let (v, s): (Vector<Elem>, BoxS<I>) = if fused {
            let next = chain[i + 1];
            let (l1, i1) = mk(spec, None, limits);
            let (l2, i2) = mk(next, None, limits);
            stages.push((spec, i1));
            stages.push((next, i2));
            let obs = (cur_values, cur);
            match spec {
                StageSpec::ObsDynHead(_) => apply_stage(obs.dynamic_head(l1.unwrap()), next, l2),
                StageSpec::ObsDynTail(_) => apply_stage(obs.dynamic_tail(l1.unwrap()), next, l2),
                StageSpec::ObsDynSkip(_) => apply_stage(obs.dynamic_skip(l1.unwrap()), next, l2),
                // the adapter half only: its own initial values are dropped on purpose
                StageSpec::ObsDynHeadInit(n, _) => apply_stage(obs.dynamic_head_with_initial_value(n, l1.unwrap()).1, next, l2),
                StageSpec::ObsDynTailInit(n, _) => apply_stage(obs.dynamic_tail_with_initial_value(n, l1.unwrap()).1, next, l2),
                StageSpec::ObsDynSkipInit(n, _) => apply_stage(obs.dynamic_skip_with_initial_count(n, l1.unwrap()).1, next, l2),
                _ => unreachable!(),
            }
        } else {
            let (l1, i1) = mk(spec, None, limits);
            stages.push((spec, i1));
            apply_stage((cur_values, cur), spec, l1)
        };
        i += stages.len();
        let mut t = TapState::new(taps.len(), I::BATCHED, v.clone());
        t.prev = Some(input.clone());
        t.stage_props = stages.iter().map(|(s, _)| s.prop()).collect();
        t.stage_props.dedup();
        // C15 bound: only when the producing group is a single fixed-limit Head/Tail stage
        if stages.len() == 1 {
            if let Some(b) = stages[0].0.fixed_bound() {
                t.max_len = Some(b);
                if v.len() > b {
                    cs.violate(
                        env,
                        &["C15", stages[0].0.prop()],
                        "initial_values_exceed_limit",
                        taps.len() as i32,
                        format!("initial values have {} items, fixed limit is {}", v.len(), b),
                    );
                }
            }
        }
        t.feeds_sort = feeds_sort_of(chain.get(i));
        t.group = stages.iter().map(|(s, li)| (*s, li.map(|i| limits.writers[i].tap.clone()))).collect();
        input.borrow_mut().consumer_lims = stages.iter().filter_map(|(_, li)| li.map(|i| limits.writers[i].tap.clone())).collect();
        t.record = i >= chain.len();
        let t = Rc::new(RefCell::new(t));
        taps.push(t.clone());
        groups.push(Group { stages });
        cur_values = v;
        cur = Box::pin(Tap { inner: s, st: t, env: env.clone(), cs: cs.clone() });
    }
    Built { stream: cur, taps, groups }
}

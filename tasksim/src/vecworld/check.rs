//! `Check` implementation for the vector world.

use super::exec::run_case;
use super::gen::gen_case;
use super::steps::*;
use crate::common::Outcome;
use crate::rng::Rng;
use crate::runner::Check;
use crate::track::V;

pub struct VecCheck {
    pub prop: String,
    /// false: do not retire consumers on known-finding triggers (used to show the findings)
    pub kf_retire: bool,
}

fn domain_of(prop: &str) -> u64 {
    prop.trim_start_matches('C').parse::<u64>().unwrap_or(0) + 1000
}

fn simpler_usize(n: usize) -> Vec<usize> {
    let mut v = Vec::new();
    if n > 0 {
        v.push(0);
        if n > 1 {
            v.push(n - 1);
            if n / 2 != 0 && n / 2 != n - 1 {
                v.push(n / 2);
            }
        }
    }
    v
}

fn simpler_v(v: V) -> Vec<V> {
    let mut out = Vec::new();
    if v.0 != 0 {
        out.push(V(0, v.1));
    }
    out
}

fn simpler_lim(l: LimSpec) -> Vec<LimSpec> {
    let mut out = Vec::new();
    if l.share.is_some() {
        out.push(LimSpec { share: None, ..l });
    }
    if l.kind != LimKind::Scripted {
        out.push(LimSpec { kind: LimKind::Scripted, share: None, ..l });
    }
    for i in simpler_usize(l.initial) {
        out.push(LimSpec { initial: i, ..l });
    }
    out
}

fn simpler_stage(s: StageSpec) -> Vec<StageSpec> {
    use StageSpec::*;
    let mut out = Vec::new();
    match s {
        Head(n) => out.extend(simpler_usize(n).into_iter().map(Head)),
        Tail(n) => out.extend(simpler_usize(n).into_iter().map(Tail)),
        Skip(n) => out.extend(simpler_usize(n).into_iter().map(Skip)),
        DynHead(l) => out.extend(simpler_lim(l).into_iter().map(DynHead)),
        DynTail(l) => out.extend(simpler_lim(l).into_iter().map(DynTail)),
        DynSkip(l) => out.extend(simpler_lim(l).into_iter().map(DynSkip)),
        DynHeadInit(n, l) => {
            out.extend(simpler_usize(n).into_iter().map(|m| DynHeadInit(m, l)));
            out.extend(simpler_lim(l).into_iter().map(|k| DynHeadInit(n, k)));
        }
        DynTailInit(n, l) => {
            out.extend(simpler_usize(n).into_iter().map(|m| DynTailInit(m, l)));
            out.extend(simpler_lim(l).into_iter().map(|k| DynTailInit(n, k)));
        }
        DynSkipInit(n, l) => {
            out.extend(simpler_usize(n).into_iter().map(|m| DynSkipInit(m, l)));
            out.extend(simpler_lim(l).into_iter().map(|k| DynSkipInit(n, k)));
        }
        Filter(m) => {
            if m != 15 {
                out.push(Filter(15));
            }
            for b in 0..4 {
                if m & (1 << b) == 0 {
                    out.push(Filter(m | (1 << b)));
                }
            }
        }
        FilterMap(m) => {
            out.push(Filter(m));
            for b in 0..4 {
                if m & (1 << b) == 0 {
                    out.push(FilterMap(m | (1 << b)));
                }
            }
        }
        Sort => {}
        SortBy => out.push(Sort),
        SortByKey => out.push(SortBy),
        ObsDynHead(l) => {
            out.push(DynHead(l));
            out.extend(simpler_lim(l).into_iter().map(ObsDynHead));
        }
        ObsDynTail(l) => {
            out.push(DynTail(l));
            out.extend(simpler_lim(l).into_iter().map(ObsDynTail));
        }
        ObsDynSkip(l) => {
            out.push(DynSkip(l));
            out.extend(simpler_lim(l).into_iter().map(ObsDynSkip));
        }
        ObsDynHeadInit(n, l) => {
            out.push(DynHeadInit(n, l));
            out.extend(simpler_usize(n).into_iter().map(|m| ObsDynHeadInit(m, l)));
        }
        ObsDynTailInit(n, l) => {
            out.push(DynTailInit(n, l));
            out.extend(simpler_usize(n).into_iter().map(|m| ObsDynTailInit(m, l)));
        }
        ObsDynSkipInit(n, l) => {
            out.push(DynSkipInit(n, l));
            out.extend(simpler_usize(n).into_iter().map(|m| ObsDynSkipInit(m, l)));
        }
    }
    out
}

fn simpler_step(s: &Step) -> Vec<Step> {
    use Step::*;
    let mut out = Vec::new();
    match s {
        PushBack(v) => out.extend(simpler_v(*v).into_iter().map(PushBack)),
        PushFront(v) => {
            out.push(PushBack(*v));
            out.extend(simpler_v(*v).into_iter().map(PushFront));
        }
        Insert(i, v) => {
            out.push(PushBack(*v));
            out.extend(simpler_usize(*i).into_iter().map(|j| Insert(j, *v)));
            out.extend(simpler_v(*v).into_iter().map(|w| Insert(*i, w)));
        }
        Set(i, v) => {
            out.extend(simpler_usize(*i).into_iter().map(|j| Set(j, *v)));
            out.extend(simpler_v(*v).into_iter().map(|w| Set(*i, w)));
        }
        Remove(i) => out.extend(simpler_usize(*i).into_iter().map(Remove)),
        Truncate(n) => out.extend(simpler_usize(*n).into_iter().map(Truncate)),
        Append(vs) => {
            if vs.len() == 1 {
                out.push(PushBack(vs[0]));
            }
            for k in 0..vs.len() {
                let mut w = vs.clone();
                w.remove(k);
                out.push(Append(w));
            }
            for k in 0..vs.len() {
                for x in simpler_v(vs[k]) {
                    let mut w = vs.clone();
                    w[k] = x;
                    out.push(Append(w));
                }
            }
        }
        EntrySet(i, v) => {
            out.push(Set(*i, *v));
            out.extend(simpler_usize(*i).into_iter().map(|j| EntrySet(j, *v)));
        }
        EntryRemove(i) => {
            out.push(Remove(*i));
            out.extend(simpler_usize(*i).into_iter().map(EntryRemove));
        }
        BadInsert(x, v) => out.extend(simpler_usize(*x).into_iter().map(|y| BadInsert(y, *v))),
        BadSet(x, v) => out.extend(simpler_usize(*x).into_iter().map(|y| BadSet(y, *v))),
        BadRemove(x) => out.extend(simpler_usize(*x).into_iter().map(BadRemove)),
        BadEntry(x) => out.extend(simpler_usize(*x).into_iter().map(BadEntry)),
        TravBegin { for_each: true } => out.push(TravBegin { for_each: false }),
        TravSet(v) => {
            out.push(TravKeep);
            out.extend(simpler_v(*v).into_iter().map(TravSet));
        }
        TravRemove => out.push(TravKeep),
        TravSetRemove(v) => {
            out.push(TravRemove);
            out.push(TravSet(*v));
        }
        Subscribe(spec) => {
            if spec.twin {
                out.push(Subscribe(ConsumerSpec { twin: false, ..spec.clone() }));
                out.push(Subscribe(ConsumerSpec { twin: false, batched: !spec.batched, ..spec.clone() }));
            }
            if spec.batched {
                out.push(Subscribe(ConsumerSpec { batched: false, ..spec.clone() }));
            }
            if spec.same_waker {
                out.push(Subscribe(ConsumerSpec { same_waker: false, ..spec.clone() }));
            }
            for k in 0..spec.chain.len() {
                let mut c = spec.chain.clone();
                c.remove(k);
                out.push(Subscribe(ConsumerSpec { chain: c, ..spec.clone() }));
            }
            for k in 0..spec.chain.len() {
                for st in simpler_stage(spec.chain[k]) {
                    let mut c = spec.chain.clone();
                    c[k] = st;
                    out.push(Subscribe(ConsumerSpec { chain: c, ..spec.clone() }));
                }
            }
        }
        LimSet(i, v) => {
            out.extend(simpler_usize(*i).into_iter().map(|j| LimSet(j, *v)));
            out.extend(simpler_usize(*v).into_iter().map(|w| LimSet(*i, w)));
        }
        LimSetIfNotEq(i, v) => {
            out.push(LimSet(*i, *v));
            out.extend(simpler_usize(*v).into_iter().map(|w| LimSetIfNotEq(*i, w)));
        }
        LimDrop(i) => out.extend(simpler_usize(*i).into_iter().map(LimDrop)),
        Poll(j) => out.extend(simpler_usize(*j).into_iter().map(Poll)),
        PollWoken(j) => out.extend(simpler_usize(*j).into_iter().map(PollWoken)),
        DropConsumer(j) => out.extend(simpler_usize(*j).into_iter().map(DropConsumer)),
        PollPreempted { j, at, ops, drop_vector, as_tx } => {
            out.push(Poll(*j));
            if *as_tx {
                out.push(PollPreempted { j: *j, at: *at, ops: ops.clone(), drop_vector: *drop_vector, as_tx: false });
            }
            if *drop_vector {
                out.push(PollPreempted { j: *j, at: *at, ops: ops.clone(), drop_vector: false, as_tx: *as_tx });
            }
            for k in 0..ops.len() {
                let mut o = ops.clone();
                o.remove(k);
                out.push(PollPreempted { j: *j, at: *at, ops: o, drop_vector: *drop_vector, as_tx: *as_tx });
            }
            for k in 0..ops.len() {
                for x in simpler_step(&ops[k]) {
                    let mut o = ops.clone();
                    o[k] = x;
                    out.push(PollPreempted { j: *j, at: *at, ops: o, drop_vector: *drop_vector, as_tx: *as_tx });
                }
            }
            for a in simpler_usize(*at as usize) {
                out.push(PollPreempted { j: *j, at: a as u8, ops: ops.clone(), drop_vector: *drop_vector, as_tx: *as_tx });
            }
            for i in simpler_usize(*j) {
                out.push(PollPreempted { j: i, at: *at, ops: ops.clone(), drop_vector: *drop_vector, as_tx: *as_tx });
            }
        }
        _ => {}
    }
    out
}

impl Check for VecCheck {
    type Case = Case;
    fn prop(&self) -> &str {
        &self.prop
    }
    fn world(&self) -> &'static str {
        "vector"
    }
    fn domain(&self) -> u64 {
        domain_of(&self.prop)
    }
    fn gen(&self, rng: &mut Rng) -> Case {
        let mut c = gen_case(&self.prop, rng);
        c.config.kf_retire = self.kf_retire;
        c
    }
    fn exec(&self, case: &Case) -> Outcome {
        run_case(case).outcome
    }
    fn len(&self, case: &Case) -> usize {
        case.steps.len()
    }
    fn remove_range(&self, case: &Case, from: usize, to: usize) -> Case {
        let mut c = case.clone();
        c.steps.drain(from..to);
        c
    }
    fn simplifications(&self, case: &Case) -> Vec<Case> {
        let mut out = Vec::new();
        let cfg = &case.config;
        for k in 0..cfg.initial.len() {
            let mut c = case.clone();
            c.config.initial.remove(k);
            out.push(c);
        }
        for cap in [1usize, 2, 4, 8, 16] {
            if cap < cfg.capacity {
                let mut c = case.clone();
                c.config.capacity = cap;
                out.push(c);
            }
        }
        if cfg.audit_every_step {
            let mut c = case.clone();
            c.config.audit_every_step = false;
            out.push(c);
        }
        if cfg.auditor {
            let mut c = case.clone();
            c.config.auditor = false;
            out.push(c);
        }
        if cfg.teardown != 0 {
            let mut c = case.clone();
            c.config.teardown = 0;
            out.push(c);
        }
        for (i, s) in case.steps.iter().enumerate() {
            for t in simpler_step(s) {
                let mut c = case.clone();
                c.steps[i] = t;
                out.push(c);
            }
        }
        out
    }
}

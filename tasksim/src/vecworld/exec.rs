//! Interpreter of vector-world cases: the simulator's executor, scheduler hooks and oracles.

use super::chain::{build_chain, Group, Limits};
use super::steps::*;
use super::tap::*;
use super::view::*;
use crate::common::{props, Counters, Outcome, Violation};
use crate::rng::{Fingerprint, Rng};
use crate::track::{self, Elem, V};
use crate::wake::{self, Flag};
use eyeball::Observable;
use eyeball_im::{
    ObservableVector, ObservableVectorEntry, ObservableVectorTransaction, ObservableVectorTransactionEntry, VectorDiff,
};
use eyeball_im_util::vector::{VectorObserver, VectorSubscriberExt};
use imbl::Vector;
use std::cell::{Cell, RefCell};
use std::panic::{catch_unwind, AssertUnwindSafe};
use std::rc::Rc;
use std::sync::Arc;
use std::task::{Context, Poll};

enum Outer {
    Plain(BoxS<VectorDiff<Elem>>),
    Batched(BoxS<Vec<VectorDiff<Elem>>>),
}

struct Consumer {
    id: usize,
    spec: ConsumerSpec,
    batched: bool,
    outer: Option<Outer>,
    taps: Vec<Rc<RefCell<TapState>>>,
    groups: Vec<Group>,
    cs: Rc<ConsumerShared>,
    /// Flag of the waker given to the last poll, if that poll returned Pending.
    armed: Option<Arc<Flag>>,
    /// the task's one waker (same_waker consumers)
    own_waker: Option<(Arc<Flag>, std::task::Waker)>,
    ever_polled: bool,
    last_ready: bool,
    done: bool,
    twin: Option<usize>,
    polls: u32,
}

impl Consumer {
    fn live(&self) -> bool {
        self.outer.is_some() && !self.done
    }
    fn runnable(&self) -> bool {
        self.live() && (!self.ever_polled || self.last_ready || self.armed.as_ref().map_or(false, |f| f.is_woken()))
    }
    fn armed_unwoken(&self) -> bool {
        self.live() && self.armed.as_ref().map_or(false, |f| !f.is_woken())
    }
    fn relevant_props(&self) -> Vec<&'static str> {
        let mut ps: Vec<&'static str> = Vec::new();
        if self.spec.chain.is_empty() {
            ps.extend(["C05", "C06", "C08"]);
        } else {
            for s in &self.spec.chain {
                if !ps.contains(&s.prop()) {
                    ps.push(s.prop());
                }
            }
            if self.spec.chain.len() > 1 {
                ps.push("C12");
            }
        }
        ps
    }
}

struct Auditor {
    stream: BoxS<Vec<VectorDiff<Elem>>>,
    replica: Vector<Elem>,
    done: bool,
}

/// Everything except the vector itself, so that a transaction / traversal can borrow the vector
/// mutably while consumers and limit writers keep stepping.
struct Rest {
    env: Env,
    steps: Vec<Step>,
    pc: usize,
    /// Model of the committed contents (same as env.contents, kept here for convenience).
    model: Vec<V>,
    consumers: Vec<Consumer>,
    limits: Limits,
    auditor: Option<Auditor>,
    audit: bool,
    sim_steps: u64,
    producer_steps: u64,
    items_delivered: u64,
    faults_fired: u64,
    max_polls_per_consumer: u32,
}

#[derive(Clone, Copy, PartialEq, Eq)]
enum Expected {
    /// exactly this many direct calls were made, each must publish exactly one diff
    Diffs(usize),
    /// nothing may be published
    Nothing,
    /// a commit: at most one message, never empty
    Commit,
}

/// Mutators shared by ObservableVector and ObservableVectorTransaction.
pub(super) trait VecLike {
    fn snapshot(&self) -> Vec<V>;
    fn push_back(&mut self, e: Elem);
    fn push_front(&mut self, e: Elem);
    fn pop_back(&mut self) -> Option<Elem>;
    fn pop_front(&mut self) -> Option<Elem>;
    fn insert(&mut self, i: usize, e: Elem);
    fn set(&mut self, i: usize, e: Elem) -> Elem;
    fn remove(&mut self, i: usize) -> Elem;
    fn truncate(&mut self, n: usize);
    fn append(&mut self, v: Vector<Elem>);
    fn clear(&mut self);
    fn entry_set(&mut self, i: usize, e: Elem) -> (usize, V, Elem);
    fn entry_remove(&mut self, i: usize) -> (usize, V, Elem);
    fn entry_touch(&mut self, i: usize);
}

macro_rules! impl_veclike {
    ($ty:ty, $entry:ident) => {
        impl VecLike for $ty {
            fn snapshot(&self) -> Vec<V> {
                self.iter().map(|e| e.v()).collect()
            }
            fn push_back(&mut self, e: Elem) {
                <$ty>::push_back(self, e)
            }
            fn push_front(&mut self, e: Elem) {
                <$ty>::push_front(self, e)
            }
            fn pop_back(&mut self) -> Option<Elem> {
                <$ty>::pop_back(self)
            }
            fn pop_front(&mut self) -> Option<Elem> {
                <$ty>::pop_front(self)
            }
            fn insert(&mut self, i: usize, e: Elem) {
                <$ty>::insert(self, i, e)
            }
            fn set(&mut self, i: usize, e: Elem) -> Elem {
                <$ty>::set(self, i, e)
            }
            fn remove(&mut self, i: usize) -> Elem {
                <$ty>::remove(self, i)
            }
            fn truncate(&mut self, n: usize) {
                <$ty>::truncate(self, n)
            }
            fn append(&mut self, v: Vector<Elem>) {
                <$ty>::append(self, v)
            }
            fn clear(&mut self) {
                <$ty>::clear(self)
            }
            fn entry_set(&mut self, i: usize, e: Elem) -> (usize, V, Elem) {
                let mut entry = self.entry(i);
                let idx = $entry::index(&entry);
                let cur = (*entry).v();
                let old = $entry::set(&mut entry, e);
                (idx, cur, old)
            }
            fn entry_remove(&mut self, i: usize) -> (usize, V, Elem) {
                let entry = self.entry(i);
                let idx = $entry::index(&entry);
                let cur = (*entry).v();
                let old = $entry::remove(entry);
                (idx, cur, old)
            }
            fn entry_touch(&mut self, i: usize) {
                let _entry = self.entry(i);
            }
        }
    };
}
impl_veclike!(ObservableVector<Elem>, ObservableVectorEntry);
impl_veclike!(ObservableVectorTransaction<'_, Elem>, ObservableVectorTransactionEntry);

fn e(v: V) -> Elem {
    Elem::new(v)
}

/// Store `v` in limit source `i` (already reduced modulo the number of sources). Returns the value
/// that is announced by this, if any (`set_if_not_eq` with an equal value announces nothing).
pub(super) fn limit_set(limits: &mut Limits, env: &Env, i: usize, v: usize, if_not_eq: bool) -> Option<usize> {
    let src = &mut limits.sources[i];
    let mut announce = None;
    if let Some(obs) = src.obs.as_mut() {
        if if_not_eq {
            if Observable::set_if_not_eq(obs, v).is_some() {
                announce = Some(v);
            } else {
                env.borrow_mut().counters.inc("fault.F7_limit_unchanged_reannounced");
            }
        } else {
            Observable::set(obs, v);
            announce = Some(v);
        }
    } else if let Some(sc) = &src.script {
        let wk = {
            let mut s = sc.borrow_mut();
            s.queue.push_back(v);
            s.waker.take()
        };
        if let Some(wk) = wk {
            wk.wake();
        }
        announce = Some(v);
    }
    src.value = v;
    env.borrow_mut().counters.inc("ops.limit_set");
    announce
}

/// Record that source `i` has announced `v`. Once the stream a stage reads from has ended, a later
/// limit is optional for it; so is — until that poll has returned — a limit announced while the
/// stage's consumer (`polling`) is in the middle of a poll (F8): the stage may already have polled
/// its limit stream in this poll; the wake-up makes sure it is polled again.
pub(super) fn limit_announce(limits: &mut Limits, i: usize, v: usize, polling: Option<usize>) {
    for w in limits.writers.iter_mut().filter(|w| w.src == i) {
        if w.tap.borrow().input_ended {
            w.late.push(v);
        } else if polling == Some(w.consumer) {
            // (every value announced during the poll: a stage that polls its limit stream again
            // within the same poll — read-ahead — may have seen any prefix of them)
            w.during_poll.push(v);
        } else {
            w.announced = Some(v);
            w.during_poll.clear();
        }
    }
}

impl Rest {
    fn violate(&self, ps: &[&str], oracle: &str, stage: i32, detail: String) {
        let mut w = self.env.borrow_mut();
        if w.violation.is_none() {
            let step = w.step;
            w.violation = Some(Violation { props: props(ps), oracle: oracle.into(), stage, step, detail });
        }
    }
    fn failed(&self) -> bool {
        self.env.borrow().violation.is_some()
    }
    fn count(&self, k: &str) {
        self.env.borrow_mut().counters.inc(k);
    }
    fn fp(&self, x: u64) {
        self.env.borrow_mut().fp.add(x);
    }

    fn next_step(&mut self) -> Option<Step> {
        if self.pc < self.steps.len() && !self.failed() {
            let s = self.steps[self.pc].clone();
            self.env.borrow_mut().step = self.pc;
            self.pc += 1;
            self.sim_steps += 1;
            self.fp(s.kind_code());
            Some(s)
        } else {
            None
        }
    }

    // ------------------------------------------------------------------ writer operations

    /// Execute one mutator on `t` (the vector, or an open transaction), comparing with the plain
    /// vector `m`. Returns whether the contents changed or a change was recorded.
    fn do_op<T: VecLike>(&mut self, t: &mut T, m: &mut Vec<V>, step: &Step, in_tx: bool) -> bool {
        let ps: &[&str] = if in_tx { &["C17", "C07"] } else { &["C17"] };
        let len = m.len();
        let mut effective = true;
        let mut ret_err: Option<String> = None;
        let mut chk = |what: &str, got: Option<V>, want: Option<V>| {
            if got != want && ret_err.is_none() {
                ret_err = Some(format!("{what} returned {:?}, a plain vector gives {:?}", got, want));
            }
        };
        let r = catch_unwind(AssertUnwindSafe(|| match step {
            Step::PushBack(v) => {
                t.push_back(e(*v));
                m.push(*v);
            }
            Step::PushFront(v) => {
                t.push_front(e(*v));
                m.insert(0, *v);
            }
            Step::PopBack => {
                let got = t.pop_back().map(|x| x.v());
                let want = m.pop();
                effective = want.is_some();
                chk("pop_back", got, want);
            }
            Step::PopFront => {
                let got = t.pop_front().map(|x| x.v());
                let want = if m.is_empty() { None } else { Some(m.remove(0)) };
                effective = want.is_some();
                chk("pop_front", got, want);
            }
            Step::Insert(i, v) => {
                let i = i % (len + 1);
                t.insert(i, e(*v));
                m.insert(i, *v);
            }
            Step::Set(i, v) => {
                if len == 0 {
                    effective = false;
                    return;
                }
                let i = i % len;
                let got = t.set(i, e(*v)).v();
                let want = std::mem::replace(&mut m[i], *v);
                chk("set", Some(got), Some(want));
            }
            Step::Remove(i) => {
                if len == 0 {
                    effective = false;
                    return;
                }
                let i = i % len;
                let got = t.remove(i).v();
                let want = m.remove(i);
                chk("remove", Some(got), Some(want));
            }
            Step::Truncate(n) => {
                // n in 0..=len+2: includes the documented no-ops n >= len
                let n = n % (len + 3);
                t.truncate(n);
                effective = n < len;
                m.truncate(n);
            }
            Step::Append(vs) => {
                t.append(vs.iter().map(|v| e(*v)).collect());
                m.extend(vs.iter().copied());
            }
            Step::Clear => {
                t.clear();
                // direct clear on empty is a documented no-op; inside a transaction a Clear is
                // recorded regardless (which is allowed: it is a recorded change)
                effective = !m.is_empty() || in_tx;
                m.clear();
            }
            Step::EntrySet(i, v) => {
                if len == 0 {
                    effective = false;
                    return;
                }
                let i = i % len;
                let (idx, cur, old) = t.entry_set(i, e(*v));
                let want = std::mem::replace(&mut m[i], *v);
                chk("entry.set", Some(old.v()), Some(want));
                chk("entry deref", Some(cur), Some(want));
                if idx != i {
                    chk("entry.index", Some(V(0, idx as u16)), Some(V(0, i as u16)));
                }
            }
            Step::EntryRemove(i) => {
                if len == 0 {
                    effective = false;
                    return;
                }
                let i = i % len;
                let (idx, cur, old) = t.entry_remove(i);
                let want = m.remove(i);
                chk("entry.remove", Some(old.v()), Some(want));
                chk("entry deref", Some(cur), Some(want));
                if idx != i {
                    chk("entry.index", Some(V(0, idx as u16)), Some(V(0, i as u16)));
                }
            }
            _ => unreachable!(),
        }));
        if let Err(p) = r {
            self.violate(ps, "mutator_panicked", -1, format!("{:?} panicked on in-range arguments: {}", step, panic_msg(&p)));
            return false;
        }
        if let Some(e) = ret_err {
            self.violate(ps, "mutator_return_value", -1, format!("{:?}: {}", step, e));
            return false;
        }
        let got = t.snapshot();
        if got != *m {
            self.violate(ps, "mutator_contents", -1, format!("after {:?} the contents are {:?}, a plain vector gives {:?}", step, got, m));
            return false;
        }
        effective
    }

    /// F6: out-of-range call; must panic and change nothing.
    fn do_bad_op<T: VecLike>(&mut self, t: &mut T, m: &Vec<V>, step: &Step) {
        let len = m.len();
        self.count("fault.F6_caller_error");
        self.faults_fired += 1;
        let r = catch_unwind(AssertUnwindSafe(|| match step {
            Step::BadInsert(x, v) => t.insert(len + 1 + x % 3, e(*v)),
            Step::BadSet(x, v) => {
                t.set(len + x % 3, e(*v));
            }
            Step::BadRemove(x) => {
                t.remove(len + x % 3);
            }
            Step::BadEntry(x) => t.entry_touch(len + x % 3),
            _ => unreachable!(),
        }));
        if r.is_ok() {
            self.violate(&["C17"], "out_of_range_did_not_panic", -1, format!("{:?} on length {} did not panic", step, len));
            return;
        }
        let got = t.snapshot();
        if got != *m {
            self.violate(&["C17"], "out_of_range_changed_contents", -1, format!("{:?} panicked but contents became {:?} (were {:?})", step, got, m));
        }
    }

    /// After a producer step: publish the model state to the oracles, poll the auditor and check
    /// what was published, then run the wake audits.
    fn after_producer_step(&mut self, expected: Expected, changed_contents: Option<Vec<V>>, ps: &[&str]) {
        self.producer_steps += 1;
        if let Some(c) = changed_contents {
            self.model = c.clone();
            let mut w = self.env.borrow_mut();
            w.contents = c.clone();
            w.boundaries.push(c);
        }
        self.poll_auditor(expected, ps);
        if self.failed() {
            return;
        }
        self.audit_armed();
    }

    fn poll_auditor(&mut self, expected: Expected, ps: &[&str]) {
        let Some(a) = self.auditor.as_mut() else { return };
        if a.done {
            return;
        }
        let mut got: Vec<Vec<VectorDiff<Elem>>> = Vec::new();
        let mut ended = false;
        let mut panicked = None;
        for _ in 0..64 {
            let (_f, wk) = wake::fresh();
            let mut cx = Context::from_waker(&wk);
            match catch_unwind(AssertUnwindSafe(|| a.stream.as_mut().poll_next(&mut cx))) {
                Ok(Poll::Pending) => break,
                Ok(Poll::Ready(None)) => {
                    ended = true;
                    a.done = true;
                    break;
                }
                Ok(Poll::Ready(Some(b))) => got.push(b),
                Err(p) => {
                    panicked = Some(panic_msg(&p));
                    break;
                }
            }
        }
        self.sim_steps += 1;
        if let Some(p) = panicked {
            self.violate(&["C05", "C06"], "subscriber_panicked", 0, format!("always-up-to-date batched subscriber panicked: {p}"));
            return;
        }
        let dropped = self.env.borrow().dropped;
        if ended && !dropped {
            self.violate(&["C08"], "ended_while_vector_alive", 0, "always-up-to-date subscriber's stream ended while the vector is alive".into());
            return;
        }
        for b in &got {
            if b.is_empty() {
                self.violate(&["C07", "C13"], "empty_batch", 0, "an empty batch was published".into());
                return;
            }
            for d in b {
                if matches!(d, VectorDiff::Reset { .. }) {
                    self.violate(&["C06"], "reset_without_lag", 0, "a subscriber polled after every single operation received a Reset".into());
                    return;
                }
                if let Err(err) = checked_apply(&mut self.auditor.as_mut().unwrap().replica, d) {
                    self.violate(&["C05", "C06"], "inapplicable_diff", 0, format!("{err} (always-up-to-date subscriber)"));
                    return;
                }
            }
        }
        let n_msgs = got.len();
        let n_diffs: usize = got.iter().map(|b| b.len()).sum();
        match expected {
            Expected::Diffs(k) => {
                if n_diffs != k || n_msgs > k {
                    let mut p = vec!["C05"];
                    p.extend_from_slice(ps);
                    self.violate(&p, "direct_call_diff_count", 0, format!("{} effective direct call(s) published {} diff(s) in {} item(s), expected exactly one diff per call", k, n_diffs, n_msgs));
                    return;
                }
            }
            Expected::Nothing => {
                if n_diffs != 0 || n_msgs != 0 {
                    let mut p = vec!["C05"];
                    p.extend_from_slice(ps);
                    self.violate(&p, "published_without_change", 0, format!("{} diff(s) were published by a step that must publish nothing: {:?}", n_diffs, got.iter().flatten().map(to_diffd).collect::<Vec<_>>()));
                    return;
                }
            }
            Expected::Commit => {}
        }
        {
            let mut w = self.env.borrow_mut();
            for b in &got {
                let state_after = w.contents.clone();
                w.msgs.push(Msg { diffs: b.iter().map(to_diffd).collect(), state_after, commit: matches!(expected, Expected::Commit) });
            }
        }
        let a = self.auditor.as_ref().unwrap();
        if !same(&a.replica, &self.model) {
            let mut p = vec!["C05"];
            p.extend_from_slice(ps);
            self.violate(&p, "replay_mismatch_at_boundary", 0, format!("replaying the published diffs gives {:?} but the vector contains {:?}", vs(&a.replica), self.model));
        }
    }

    // ------------------------------------------------------------------ consumers

    fn subscribe(&mut self, vec: &ObservableVector<Elem>, spec: &ConsumerSpec) {
        let first = self.add_consumer(vec, spec, spec.batched, None);
        if spec.twin && !self.failed() {
            let second = self.add_consumer(vec, spec, !spec.batched, Some(first));
            self.consumers[first].twin = Some(second);
        }
    }

    fn add_consumer(&mut self, vec: &ObservableVector<Elem>, spec: &ConsumerSpec, batched: bool, twin: Option<usize>) -> usize {
        let id = self.consumers.len();
        let mut chain_props: Vec<String> = Vec::new();
        for st in &spec.chain {
            if !chain_props.iter().any(|x| x == st.prop()) {
                chain_props.push(st.prop().into());
            }
        }
        if spec.chain.len() > 1 {
            chain_props.push("C12".into());
        }
        if batched && !spec.chain.is_empty() {
            chain_props.push("C13".into());
        }
        let cs = Rc::new(ConsumerShared { id, chain_len: spec.chain.len(), chain_props, retire: Cell::new(None), violation: RefCell::new(None) });
        let sub = vec.subscribe();
        let snapshot = vs(&sub.values());
        if snapshot != self.model {
            self.violate(&["C05"], "subscription_snapshot", 0, format!("subscription snapshot {:?} differs from the contents {:?}", snapshot, self.model));
        }
        // alternate between the equivalent public ways of turning a subscriber into its parts
        let alt = (id + self.model.len()) % 2 == 1;
        let (outer, taps, groups) = if batched && alt {
            let values = sub.values();
            let raw = sub.into_batched_stream();
            let b = build_chain::<Vec<VectorDiff<Elem>>>(values, Box::pin(raw), &spec.chain, &self.env, &cs, &mut self.limits);
            (Outer::Batched(b.stream), b.taps, b.groups)
        } else if !batched && alt {
            let values = sub.values();
            let raw = sub.into_stream();
            let b = build_chain::<VectorDiff<Elem>>(values, Box::pin(raw), &spec.chain, &self.env, &cs, &mut self.limits);
            (Outer::Plain(b.stream), b.taps, b.groups)
        } else if batched {
            let (values, raw) = sub.batched().into_parts();
            let b = build_chain::<Vec<VectorDiff<Elem>>>(values, Box::pin(raw), &spec.chain, &self.env, &cs, &mut self.limits);
            (Outer::Batched(b.stream), b.taps, b.groups)
        } else {
            let (values, raw) = sub.into_values_and_stream();
            let b = build_chain::<VectorDiff<Elem>>(values, Box::pin(raw), &spec.chain, &self.env, &cs, &mut self.limits);
            (Outer::Plain(b.stream), b.taps, b.groups)
        };
        for s in &spec.chain {
            self.fp(100 + s.code());
        }
        self.count(if batched { "consumers.batched" } else { "consumers.plain" });
        if spec.chain.len() >= 3 {
            self.count("probe.chain_depth_3");
        }
        let c = Consumer { id, spec: spec.clone(), batched, outer: Some(outer), taps, groups, cs, armed: None, own_waker: None, ever_polled: false, last_ready: false, done: false, twin, polls: 0 };
        self.consumers.push(c);
        // the initial values of every stage are its view of the stage below (nothing announced yet)
        self.promote(id);
        if !self.failed() {
            self.check_views(id, true);
        }
        id
    }

    /// Move a violation recorded by the consumer's taps to the run, unless the consumer hit a
    /// known-finding trigger during the same poll (then it is retired instead).
    fn promote(&mut self, j: usize) -> bool {
        let c = &mut self.consumers[j];
        if let Some(kf) = c.cs.retire.get() {
            c.outer = None;
            c.cs.violation.borrow_mut().take();
            let mut w = self.env.borrow_mut();
            w.counters.inc(&format!("retired.{kf}"));
            w.fp.add(7777);
            return true;
        }
        if let Some(v) = c.cs.violation.borrow_mut().take() {
            let mut w = self.env.borrow_mut();
            if w.violation.is_none() {
                w.violation = Some(v);
            }
        }
        false
    }

    /// The limits a stage may show at a quiescent point: the latest one announced while its input
    /// was alive, or the latest one announced after that.
    fn announced(&self, idx: Option<usize>, initial: bool) -> Vec<Option<usize>> {
        if initial {
            return vec![None];
        }
        match idx {
            None => vec![None],
            Some(i) => {
                let w = &self.limits.writers[i];
                let mut v = vec![w.announced];
                for d in &w.late {
                    if !v.contains(&Some(*d)) {
                        v.push(Some(*d));
                    }
                }
                for d in &w.during_poll {
                    if !v.contains(&Some(*d)) {
                        v.push(Some(*d));
                    }
                }
                v
            }
        }
    }

    /// Stage views: every boundary's replica is the view of the boundary below.
    fn check_views(&mut self, j: usize, initial: bool) {
        let c = &self.consumers[j];
        for (k, g) in c.groups.iter().enumerate() {
            let input = vs(&c.taps[k].borrow().replica);
            let got = vs(&c.taps[k + 1].borrow().replica);
            let cands: Vec<Vec<Option<usize>>> = g.stages.iter().map(|(_, li)| self.announced(*li, initial)).collect();
            let mut idx = vec![0usize; cands.len()];
            let mut first_err: Option<String> = None;
            let mut ok = false;
            loop {
                let stages: Vec<(StageSpec, Option<usize>)> = g.stages.iter().enumerate().map(|(n, (s, _))| (*s, cands[n][idx[n]])).collect();
                let want = group_view(&stages, &input);
                match matches(&want, &got) {
                    Ok(()) => {
                        ok = true;
                        break;
                    }
                    Err(e) => {
                        if first_err.is_none() {
                            first_err = Some(e);
                        }
                    }
                }
                // next combination
                let mut d = 0;
                while d < idx.len() {
                    idx[d] += 1;
                    if idx[d] < cands[d].len() {
                        break;
                    }
                    idx[d] = 0;
                    d += 1;
                }
                if d == idx.len() {
                    break;
                }
            }
            if !ok {
                let err = first_err.unwrap_or_default();
                let mut ps: Vec<&str> = g.stages.iter().map(|(s, _)| s.prop()).collect();
                if c.spec.chain.len() > 1 {
                    ps.push("C12");
                }
                if c.batched {
                    ps.push("C13");
                }
                let oracle = if initial { "initial_view_mismatch" } else { "view_mismatch" };
                let detail = format!("stage {:?} over input {:?} with announced limits {:?}: {}", g.stages.iter().map(|(s, _)| *s).collect::<Vec<_>>(), input, cands.iter().map(|c| c[0]).collect::<Vec<_>>(), err);
                self.violate(&ps, oracle, (k + 1) as i32, detail);
                return;
            }
        }
    }

    /// Quiescent-point oracles, evaluated right after a poll that returned Pending.
    fn check_pending(&mut self, j: usize) {
        let epoch = self.env.borrow().epoch;
        let c = &self.consumers[j];
        let n = c.taps.len();
        // every input must have been polled to Pending with this poll's waker
        for k in 0..n {
            let t = c.taps[k].borrow();
            let above: Vec<&str> = if k + 1 < n { c.groups[k].stages.iter().map(|(s, _)| s.prop()).collect() } else { c.relevant_props() };
            if t.ended {
                drop(t);
                let mut ps = above;
                ps.push("C08");
                self.violate(&ps, "pending_after_source_end", k as i32 + 1, format!("boundary {k} has ended but the consumer's stream reports Pending"));
                return;
            }
            // (with one and the same waker an input that is still registered need not be re-polled in
            // principle, so this oracle is evaluated for fresh-waker consumers only)
            // Flagged only when NO registration can exist: the input was never polled, or its last
            // poll returned an item / the end (so nothing is registered with it) and the stage did
            // not poll it again before reporting Pending. An input whose last poll was Pending in an
            // EARLIER poll is left to the behavioural wake oracle (an implementation may legitimately
            // keep an internal waker registered instead of re-polling).
            let _ = epoch;
            if k + 1 < n && matches!(t.last, PollRes::NotPolled | PollRes::Item) {
                let t_last = t.last;
                drop(t);
                let mut ps = above;
                ps.push("C14");
                self.violate(&ps, "pending_without_polling_input", k as i32 + 1, format!("the stream reported Pending although the last thing it did with its input (boundary {k}) was {:?}: nothing is registered there", t_last));
                return;
            }
        }
        for g in &c.groups {
            for (s, li) in &g.stages {
                if let Some(i) = li {
                    let lt = self.limits.writers[*i].tap.borrow();
                    if matches!(lt.last, PollRes::NotPolled | PollRes::Item) {
                        drop(lt);
                        self.violate(&[s.prop(), "C14"], "pending_without_polling_limit", -1, format!("{:?} reported Pending although the last poll of its limit stream returned a value (or it was never polled): nothing is registered there", s));
                        return;
                    }
                }
            }
        }
        // raw replica == contents
        {
            let t0 = c.taps[0].borrow();
            let w = self.env.borrow();
            if !same(&t0.replica, &w.contents) {
                let detail = format!("stream reports Pending with the replica at {:?} while the vector contains {:?}", vs(&t0.replica), w.contents);
                drop(w);
                drop(t0);
                let extra: Vec<String> = self.consumers[j].cs.chain_props.clone();
                let mut ps: Vec<&str> = vec!["C05", "C06", "C07"];
                ps.extend(extra.iter().map(|x| x.as_str()));
                self.violate(&ps, "replica_diverged_at_pending", 0, detail);
                return;
            }
            if w.auditor_on {
                let raw = t0.raw.as_ref().unwrap();
                if raw.partial != 0 || raw.cursor != w.msgs.len() {
                    let detail = format!("stream reports Pending after {} updates (+{} diffs) of {} published", raw.cursor, raw.partial, w.msgs.len());
                    drop(w);
                    drop(t0);
                    self.violate(&["C05", "C06"], "pending_with_updates_outstanding", 0, detail);
                    return;
                }
            }
        }
        self.check_views(j, false);
    }

    fn check_end(&mut self, j: usize) {
        let c = &self.consumers[j];
        for (k, t) in c.taps.iter().enumerate() {
            if !t.borrow().ended {
                self.violate(&c.relevant_props(), "end_without_source_end", k as i32, format!("consumer's stream ended but boundary {k} has not ended"));
                return;
            }
        }
        self.check_views(j, false);
    }

    /// One poll of consumer `j` with a fresh waker.
    fn poll_consumer(&mut self, j: usize) {
        if j >= self.consumers.len() || !self.consumers[j].live() {
            return;
        }
        self.sim_steps += 1;
        self.env.borrow_mut().epoch += 1;
        let was_armed_unwoken = self.consumers[j].armed_unwoken();
        let was_woken = self.consumers[j].armed.as_ref().map_or(false, |f| f.is_woken());
        let same = self.consumers[j].spec.same_waker;
        let (flag, wk) = if same {
            let c = &mut self.consumers[j];
            let (f, w) = c.own_waker.get_or_insert_with(wake::fresh).clone();
            f.clear();
            (f, w)
        } else {
            wake::fresh()
        };
        let mut cx = Context::from_waker(&wk);
        // (F8: the writer may touch the limit sources from inside this poll; the pointer is taken
        // here, right before the stream is polled, and dropped right after)
        super::preempt::set_limits(&mut self.limits as *mut Limits, self.consumers[j].id);
        let c = &mut self.consumers[j];
        c.polls += 1;
        c.ever_polled = true;
        let res = catch_unwind(AssertUnwindSafe(|| match c.outer.as_mut().unwrap() {
            Outer::Plain(s) => s.as_mut().poll_next(&mut cx).map(|o| o.map(|_| ())),
            Outer::Batched(s) => s.as_mut().poll_next(&mut cx).map(|o| o.map(|_| ())),
        }));
        super::preempt::clear_limits();
        if self.promote(j) {
            return;
        }
        if self.failed() {
            return;
        }
        let rel = self.consumers[j].relevant_props();
        match res {
            Err(p) => {
                self.violate(&rel, "stream_panicked", -1, format!("poll of consumer {} ({:?}) panicked: {}", j, self.consumers[j].spec.chain, panic_msg(&p)));
            }
            Ok(Poll::Ready(Some(()))) => {
                let c = &mut self.consumers[j];
                c.armed = None;
                c.last_ready = true;
                self.items_delivered += 1;
                self.fp(41);
                if was_armed_unwoken {
                    let mut ps = rel;
                    ps.push("C14");
                    self.violate(&ps, "ready_without_wake", -1, format!("consumer {j} returned an item although the waker of its last Pending poll was never woken"));
                }
            }
            Ok(Poll::Ready(None)) => {
                let c = &mut self.consumers[j];
                c.armed = None;
                c.last_ready = false;
                c.done = true;
                self.fp(42);
                if was_armed_unwoken {
                    let mut ps = rel;
                    ps.extend(["C14", "C08"]);
                    self.violate(&ps, "end_without_wake", -1, format!("consumer {j} reached the end of its stream although the waker of its last Pending poll was never woken"));
                    return;
                }
                if was_woken {
                    self.count("probe.pending_then_woken_then_end");
                }
                self.check_end(j);
            }
            Ok(Poll::Pending) => {
                let c = &mut self.consumers[j];
                c.armed = Some(flag);
                c.last_ready = false;
                self.fp(43);
                if was_woken {
                    self.count("probe.woken_then_pending_again");
                }
                self.check_pending(j);
            }
        }
    }

    /// Wake oracle (a): every armed consumer whose waker was not woken must still be Pending.
    fn audit_armed(&mut self) {
        if !self.audit {
            return;
        }
        for j in 0..self.consumers.len() {
            if self.consumers[j].armed_unwoken() {
                self.count("fault.F5_audit_poll");
                self.poll_consumer(j);
                if self.failed() {
                    return;
                }
            }
        }
    }

    /// Poll every runnable consumer until none is runnable (bounded).
    fn settle(&mut self) {
        loop {
            let Some(j) = (0..self.consumers.len()).find(|&j| self.consumers[j].runnable()) else { break };
            if self.consumers[j].polls > self.max_polls_per_consumer {
                let ps = {
                    let mut p = self.consumers[j].relevant_props();
                    p.extend(["C08", "C14"]);
                    p
                };
                self.violate(&ps, "no_quiescence", -1, format!("consumer {j} was polled {} times without reaching Pending or the end", self.consumers[j].polls));
                return;
            }
            self.poll_consumer(j);
            if self.failed() {
                return;
            }
        }
    }

    fn exec_consumer_step(&mut self, step: &Step) {
        match step {
            Step::Poll(j) => {
                if self.consumers.is_empty() {
                    return;
                }
                let j = j % self.consumers.len();
                if self.consumers[j].armed_unwoken() {
                    self.count("fault.F5_spurious_poll");
                    self.faults_fired += 1;
                }
                self.poll_consumer(j);
            }
            Step::PollPreempted { j, .. } => {
                // reached only while a transaction or traversal borrows the vector: a plain poll
                if self.consumers.is_empty() {
                    return;
                }
                let j = j % self.consumers.len();
                self.poll_consumer(j);
            }
            Step::PollWoken(k) => {
                let r: Vec<usize> = (0..self.consumers.len()).filter(|&j| self.consumers[j].runnable()).collect();
                if !r.is_empty() {
                    self.poll_consumer(r[k % r.len()]);
                }
            }
            Step::DropConsumer(j) => {
                if self.consumers.is_empty() {
                    return;
                }
                let j = j % self.consumers.len();
                if self.consumers[j].outer.is_some() {
                    self.count("fault.F4_consumer_cancelled");
                    self.faults_fired += 1;
                    if self.consumers[j].armed.is_some() {
                        self.count("probe.cancel_while_pending");
                    }
                    let mid = self.consumers[j].taps[0].borrow().raw.as_ref().map_or(false, |r| r.partial > 0);
                    if mid {
                        self.count("probe.cancel_mid_batch");
                    }
                    let r = catch_unwind(AssertUnwindSafe(|| drop(self.consumers[j].outer.take())));
                    if let Err(p) = r {
                        self.violate(&["C20"], "drop_panicked", -1, format!("dropping consumer {j} panicked: {}", panic_msg(&p)));
                    }
                }
            }
            Step::Settle => self.settle(),
            _ => unreachable!(),
        }
    }

    fn exec_limit_step(&mut self, step: &Step) {
        if self.limits.sources.is_empty() {
            return;
        }
        let (i, set) = match step {
            Step::LimSet(i, v) => (*i, Some((*v, false))),
            Step::LimSetIfNotEq(i, v) => (*i, Some((*v, true))),
            Step::LimDrop(i) => (*i, None),
            _ => unreachable!(),
        };
        let i = i % self.limits.sources.len();
        if !self.limits.sources[i].alive {
            return;
        }
        self.producer_steps += 1;
        let mut announce: Option<usize> = None;
        match set {
            Some((v, if_not_eq)) => {
                announce = limit_set(&mut self.limits, &self.env, i, v, if_not_eq);
            }
            None => {
                self.limits.sources[i].alive = false;
                if let Some(obs) = self.limits.sources[i].obs.take() {
                    // An eyeball subscriber reports the end of its stream as soon as the observable
                    // is gone, even if it has not yet observed the last update (C03: the end takes
                    // priority). A limit stored but never yielded by the limit stream was never
                    // announced to the adapter: fall back to what the stream has yielded.
                    for w in self.limits.writers.iter_mut().filter(|w| w.src == i) {
                        let pulled = w.tap.borrow().pulled;
                        if w.announced != pulled {
                            if w.kind == super::steps::LimKind::EyeballSubscribeReset && pulled.is_none() {
                                // nothing pulled yet: not even the reset value will be seen
                            }
                            w.announced = pulled;
                            self.env.borrow_mut().counters.inc("probe.limit_dropped_with_unobserved_update");
                        }
                    }
                    drop(obs);
                } else if let Some(sc) = &self.limits.sources[i].script {
                    let wk = {
                        let mut s = sc.borrow_mut();
                        s.closed = true;
                        s.waker.take()
                    };
                    if let Some(wk) = wk {
                        wk.wake();
                    }
                }
                self.env.borrow_mut().counters.inc("fault.F7_limit_stream_ended");
                self.faults_fired += 1;
            }
        }
        if let Some(v) = announce {
            limit_announce(&mut self.limits, i, v, None);
        }
        self.audit_armed();
    }

    fn exec_aux_step(&mut self, step: &Step) {
        if step.is_consumer_step() {
            self.exec_consumer_step(step);
        } else if step.is_limit_step() {
            self.exec_limit_step(step);
        }
    }

    // ------------------------------------------------------------------ transactions

    /// Returns true if the transaction was committed.
    fn run_tx(&mut self, mut tx: ObservableVectorTransaction<'_, Elem>) -> bool {
        self.count("ops.tx_begin");
        let pre = self.model.clone();
        let mut work = pre.clone();
        let mut ops_in_tx = 0u32;
        loop {
            let Some(step) = self.next_step() else {
                // end of the case with the transaction open: it is dropped (abandoned)
                self.count("fault.F3_tx_dropped");
                self.faults_fired += 1;
                drop(tx);
                self.after_producer_step(Expected::Nothing, None, &["C07"]);
                return false;
            };
            match &step {
                s if s.is_writer_op() => {
                    if matches!(s, Step::BadInsert(..) | Step::BadSet(..) | Step::BadRemove(_) | Step::BadEntry(_)) {
                        self.do_bad_op(&mut tx, &work, s);
                    } else {
                        self.do_op(&mut tx, &mut work, s, true);
                        ops_in_tx += 1;
                    }
                    if self.failed() {
                        return false;
                    }
                    // C07: invisible until commit
                    self.after_producer_step(Expected::Nothing, None, &["C07"]);
                }
                Step::TravBegin { for_each } => {
                    self.run_trav_tx(&mut tx, &mut work, *for_each);
                    if self.failed() {
                        return false;
                    }
                }
                Step::TxRollback => {
                    self.count("fault.F3_tx_rollback");
                    self.faults_fired += 1;
                    if ops_in_tx > 0 {
                        self.count("probe.rollback_after_ops");
                    }
                    tx.rollback();
                    work = pre.clone();
                    let got = tx.snapshot();
                    if got != work {
                        self.violate(&["C07"], "rollback_contents", -1, format!("after rollback the transaction shows {:?}, expected the pre-transaction contents {:?}", got, work));
                        return false;
                    }
                    self.after_producer_step(Expected::Nothing, None, &["C07"]);
                }
                Step::TxCommit => {
                    self.count("ops.tx_commit");
                    if ops_in_tx >= 2 {
                        self.count("probe.commit_multi_op");
                    }
                    tx.commit();
                    if work != self.model {
                        let mut w = self.env.borrow_mut();
                        let j = w.boundaries.len();
                        w.commit_bidx.push(j);
                    }
                    self.after_producer_step(Expected::Commit, Some(work), &["C07"]);
                    return true;
                }
                Step::TxDrop => {
                    self.count("fault.F3_tx_dropped");
                    self.faults_fired += 1;
                    if ops_in_tx > 0 {
                        self.count("probe.drop_after_ops");
                    }
                    drop(tx);
                    self.after_producer_step(Expected::Nothing, None, &["C07"]);
                    return false;
                }
                Step::TxBegin | Step::Subscribe(_) | Step::DropVector | Step::TravEnd => {}
                s if s.is_trav_decision() => {}
                s => self.exec_aux_step(s),
            }
            if self.failed() {
                return false;
            }
        }
    }

    /// After a transaction ended: the vector itself must show the model contents.
    fn check_vec_contents(&mut self, vec: &ObservableVector<Elem>, what: &str, ps: &[&str]) {
        let got = vec.snapshot();
        if got != self.model {
            self.violate(ps, "vector_contents", -1, format!("after {what} the vector contains {:?}, expected {:?}", got, self.model));
        }
    }
}

// ---------------------------------------------------------------------------------------------
// traversal (entries / for_each), for both the vector and the transaction

trait EntryLike {
    fn idx(&self) -> usize;
    fn cur(&self) -> V;
    fn set_(&mut self, e: Elem) -> Elem;
    fn remove_(self) -> Elem;
}
impl EntryLike for ObservableVectorEntry<'_, Elem> {
    fn idx(&self) -> usize {
        ObservableVectorEntry::index(self)
    }
    fn cur(&self) -> V {
        (**self).v()
    }
    fn set_(&mut self, e: Elem) -> Elem {
        ObservableVectorEntry::set(self, e)
    }
    fn remove_(self) -> Elem {
        ObservableVectorEntry::remove(self)
    }
}
impl EntryLike for ObservableVectorTransactionEntry<'_, '_, Elem> {
    fn idx(&self) -> usize {
        ObservableVectorTransactionEntry::index(self)
    }
    fn cur(&self) -> V {
        (**self).v()
    }
    fn set_(&mut self, e: Elem) -> Elem {
        ObservableVectorTransactionEntry::set(self, e)
    }
    fn remove_(self) -> Elem {
        ObservableVectorTransactionEntry::remove(self)
    }
}

struct Trav {
    /// current index of the next element to be visited
    pos: usize,
    stopped: bool,
    in_tx: bool,
}

impl Rest {
    fn trav_publish(&mut self, tr: &Trav, m: &Vec<V>, calls: usize) {
        if tr.in_tx {
            self.after_producer_step(Expected::Nothing, None, &["C07"]);
        } else if calls > 0 {
            self.after_producer_step(Expected::Diffs(calls), Some(m.clone()), &["C17"]);
        } else {
            self.after_producer_step(Expected::Nothing, None, &["C17"]);
        }
    }

    /// Handle one element handed out by the library: take the next decision from the case
    /// (executing consumer / limit steps met on the way) and apply it.
    fn trav_decide<E: EntryLike>(&mut self, tr: &mut Trav, entry: E, m: &mut Vec<V>) -> usize {
        let ps: &[&str] = &["C17"];
        let mut decision = Step::TravKeep;
        if !tr.stopped {
            loop {
                let Some(s) = self.next_step() else {
                    tr.stopped = true;
                    break;
                };
                if s.is_trav_decision() {
                    decision = s;
                    break;
                }
                if matches!(s, Step::TravEnd) {
                    tr.stopped = true;
                    break;
                }
                if s.is_consumer_step() || s.is_limit_step() {
                    self.exec_aux_step(&s);
                    if self.failed() {
                        return 0;
                    }
                }
            }
        }
        if tr.pos >= m.len() {
            self.violate(ps, "traversal_extra_element", -1, format!("traversal handed out an element (index {}) after all {} elements had been visited", entry.idx(), m.len()));
            return 0;
        }
        let idx = entry.idx();
        let cur = entry.cur();
        if idx != tr.pos || cur != m[tr.pos] {
            self.violate(ps, "traversal_order", -1, format!("traversal handed out index {} / item {:?}, expected index {} / item {:?} (each item once, in order)", idx, cur, tr.pos, m[tr.pos]));
            return 0;
        }
        self.count("ops.trav_decision");
        let mut entry = entry;
        let pos = tr.pos;
        // each library call is guarded separately; a set-then-remove is two direct calls with the
        // auditor polled in between
        let set_call = |this: &mut Rest, entry: &mut E, m: &mut Vec<V>, v: V, decision: &Step| -> bool {
            let r = catch_unwind(AssertUnwindSafe(|| {
                let old = entry.set_(e(v)).v();
                (old, entry.cur(), entry.idx())
            }));
            let want = std::mem::replace(&mut m[pos], v);
            match r {
                Err(p) => {
                    this.violate(ps, "mutator_panicked", -1, format!("entry operation {:?} panicked: {}", decision, panic_msg(&p)));
                    false
                }
                Ok((old, now, idx2)) if old != want || now != v || idx2 != pos => {
                    this.violate(ps, "mutator_return_value", -1, format!("entry set in {:?} returned {:?} and then showed {:?} at index {}, a plain vector gives {:?}, {:?} at index {}", decision, old, now, idx2, want, v, pos));
                    false
                }
                Ok(_) => true,
            }
        };
        let remove_call = |this: &mut Rest, entry: E, m: &mut Vec<V>, decision: &Step| -> bool {
            let r = catch_unwind(AssertUnwindSafe(|| entry.remove_().v()));
            let want = m.remove(pos);
            match r {
                Err(p) => {
                    this.violate(ps, "mutator_panicked", -1, format!("entry operation {:?} panicked: {}", decision, panic_msg(&p)));
                    false
                }
                Ok(old) if old != want => {
                    this.violate(ps, "mutator_return_value", -1, format!("entry remove in {:?} returned {:?}, a plain vector gives {:?}", decision, old, want));
                    false
                }
                Ok(_) => true,
            }
        };
        match &decision {
            Step::TravKeep => {
                drop(entry);
                tr.pos += 1;
                0
            }
            Step::TravSet(v) => {
                if set_call(self, &mut entry, m, *v, &decision) {
                    drop(entry);
                    tr.pos += 1;
                }
                1
            }
            Step::TravRemove => {
                remove_call(self, entry, m, &decision);
                1
            }
            Step::TravSetRemove(v) => {
                if !set_call(self, &mut entry, m, *v, &decision) {
                    return 0;
                }
                self.trav_publish(tr, m, 1);
                if self.failed() {
                    return 0;
                }
                remove_call(self, entry, m, &decision);
                1
            }
            _ => unreachable!(),
        }
    }

    fn trav_finish(&mut self, tr: &Trav, got: Vec<V>, m: &Vec<V>) {
        if self.failed() {
            return;
        }
        if tr.pos < m.len() && !tr.stopped {
            self.violate(&["C17"], "traversal_skipped_elements", -1, format!("traversal visited up to index {} of {} elements", tr.pos, m.len()));
            return;
        }
        if got != *m {
            self.violate(&["C17"], "mutator_contents", -1, format!("after the traversal the contents are {:?}, expected {:?}", got, m));
        }
    }
}

macro_rules! impl_trav {
    ($name:ident, $ty:ty, $in_tx:expr) => {
        impl Rest {
            fn $name(&mut self, t: &mut $ty, m: &mut Vec<V>, for_each: bool) {
                self.count(if for_each { "ops.for_each" } else { "ops.entries" });
                let mut tr = Trav { pos: 0, stopped: false, in_tx: $in_tx };
                if for_each {
                    // no early exit possible: once stopped, every remaining element is kept
                    t.for_each(|entry| {
                        if self.failed() {
                            return;
                        }
                        let calls = self.trav_decide(&mut tr, entry, m);
                        if self.failed() {
                            return;
                        }
                        self.trav_publish(&tr, m, calls);
                    });
                    // for_each cannot stop early, so everything must have been visited
                    tr.stopped = false;
                } else {
                    let mut entries = t.entries();
                    loop {
                        if self.failed() {
                            return;
                        }
                        let Some(entry) = entries.next() else { break };
                        let calls = self.trav_decide(&mut tr, entry, m);
                        if self.failed() {
                            return;
                        }
                        self.trav_publish(&tr, m, calls);
                        if tr.stopped {
                            self.count("probe.traversal_early_exit");
                            break;
                        }
                    }
                }
                let got = t.snapshot();
                self.trav_finish(&tr, got, m);
            }
        }
    };
}
impl_trav!(run_trav_vec, ObservableVector<Elem>, false);
impl_trav!(run_trav_tx, ObservableVectorTransaction<'_, Elem>, true);

pub(super) fn panic_msg(p: &Box<dyn std::any::Any + Send>) -> String {
    let m = if let Some(s) = p.downcast_ref::<&str>() {
        s.to_string()
    } else if let Some(s) = p.downcast_ref::<String>() {
        s.clone()
    } else {
        "<non-string panic payload>".to_string()
    };
    let loc = crate::LAST_PANIC_LOCATION.with(|l| l.borrow().clone());
    format!("{m} [{loc}]")
}

// ---------------------------------------------------------------------------------------------
// the run

pub struct RunRecord {
    pub outcome: Outcome,
    /// What each consumer's raw subscriber stream delivered (C07 twin comparison).
    pub raw_received: Vec<Vec<Vec<DiffD>>>,
    pub final_contents: Vec<V>,
}

pub fn run_case(case: &Case) -> RunRecord {
    track::reset();
    super::preempt::install();
    let _ = super::preempt::disarm();
    let cfg = &case.config;
    let env: Env = Rc::new(RefCell::new(WorldShared {
        contents: Vec::new(),
        boundaries: vec![Vec::new()],
        commit_bidx: Vec::new(),
        poll_floor: None,
        dropped: false,
        capacity: cfg.capacity.max(1),
        auditor_on: cfg.auditor,
        msgs: Vec::new(),
        step: 0,
        epoch: 0,
        kf_retire: cfg.kf_retire,
        counters: Counters::default(),
        fp: Fingerprint::default(),
        violation: None,
    }));
    let mut rest = Rest {
        env: env.clone(),
        steps: case.steps.clone(),
        pc: 0,
        model: Vec::new(),
        consumers: Vec::new(),
        limits: Limits::default(),
        auditor: None,
        audit: cfg.audit_every_step,
        sim_steps: 0,
        producer_steps: 0,
        items_delivered: 0,
        faults_fired: 0,
        max_polls_per_consumer: 50_000,
    };
    {
        let mut w = env.borrow_mut();
        w.fp.add(cfg.capacity as u64);
        w.fp.add(cfg.auditor as u64 * 2 + cfg.audit_every_step as u64);
    }
    let outer = catch_unwind(AssertUnwindSafe(|| {
        let mut vec: Option<ObservableVector<Elem>> = Some(ObservableVector::with_capacity(cfg.capacity.max(1)));
        if cfg.auditor {
            let sub = vec.as_ref().unwrap().subscribe();
            let (values, stream) = sub.into_values_and_batched_stream();
            rest.auditor = Some(Auditor { stream: Box::pin(stream), replica: values, done: false });
        }
        if !cfg.initial.is_empty() {
            let v = vec.as_mut().unwrap();
            let mut m = Vec::new();
            rest.do_op(v, &mut m, &Step::Append(cfg.initial.clone()), false);
            rest.after_producer_step(Expected::Diffs(1), Some(m), &["C17"]);
        }
        rest.main_loop(&mut vec);
        if !rest.failed() {
            rest.finish(&mut vec);
        }
        // C17: turning the vector back into a plain one gives the model contents
        let vec = match vec {
            Some(v) if cfg.teardown % 2 == 0 && !rest.failed() => {
                let inner = v.into_inner();
                let got: Vec<V> = inner.iter().map(|e| e.v()).collect();
                if got != rest.model {
                    rest.violate(&["C17"], "into_inner_contents", -1, format!("into_inner() returned {:?}, the contents are {:?}", got, rest.model));
                }
                None
            }
            other => other,
        };
        // teardown in a seeded order (C20)
        rest.teardown(vec, cfg.teardown);
    }));
    if let Err(p) = outer {
        rest.violate(&["C20"], "harness_or_library_panic", -1, format!("panic outside any guarded call: {}", panic_msg(&p)));
    }
    let raw_received: Vec<Vec<Vec<DiffD>>> = rest.consumers.iter().map(|c| c.taps[0].borrow().received.clone()).collect();
    let final_contents = rest.model.clone();
    let nontrivial = rest.faults_fired >= 1 && rest.producer_steps >= 3 && rest.items_delivered >= 1;
    let steps = rest.sim_steps;
    drop(rest);
    let mut w = env.borrow_mut();
    let outcome = Outcome { violation: w.violation.take(), counters: std::mem::take(&mut w.counters), fingerprint: w.fp.0, steps, nontrivial };
    RunRecord { outcome, raw_received, final_contents }
}

impl Rest {
    fn main_loop(&mut self, vec: &mut Option<ObservableVector<Elem>>) {
        while let Some(step) = self.next_step() {
            match &step {
                s if s.is_writer_op() => {
                    let Some(v) = vec.as_mut() else { continue };
                    let mut m = self.model.clone();
                    if matches!(s, Step::BadInsert(..) | Step::BadSet(..) | Step::BadRemove(_) | Step::BadEntry(_)) {
                        self.do_bad_op(v, &m, s);
                        if !self.failed() {
                            self.after_producer_step(Expected::Nothing, None, &["C17"]);
                        }
                    } else {
                        self.count("ops.direct");
                        let effective = self.do_op(v, &mut m, s, false);
                        if self.failed() {
                            return;
                        }
                        if effective {
                            self.after_producer_step(Expected::Diffs(1), Some(m), &["C17"]);
                        } else {
                            self.count("probe.documented_noop");
                            self.after_producer_step(Expected::Nothing, None, &["C17"]);
                        }
                    }
                }
                Step::TravBegin { for_each } => {
                    let Some(v) = vec.as_mut() else { continue };
                    let mut m = self.model.clone();
                    self.run_trav_vec(v, &mut m, *for_each);
                }
                Step::TxBegin => {
                    let Some(v) = vec.as_mut() else { continue };
                    let tx = v.transaction();
                    let committed = self.run_tx(tx);
                    if !self.failed() {
                        if committed {
                            // what the transaction's mutators did reaches the vector only here (C17: "directly and inside transactions")
                            self.check_vec_contents(v, "the transaction was committed", &["C07", "C17"]);
                        } else {
                            self.check_vec_contents(v, "the transaction was abandoned", &["C07"]);
                        }
                    }
                }
                Step::Subscribe(spec) => {
                    let Some(v) = vec.as_ref() else { continue };
                    if self.consumers.len() < 6 {
                        self.subscribe(v, spec);
                    }
                }
                Step::DropVector => {
                    if let Some(v) = vec.take() {
                        self.count("fault.F2_producer_dropped");
                        self.faults_fired += 1;
                        for c in &self.consumers {
                            if !c.live() {
                                continue;
                            }
                            let t0 = c.taps[0].borrow();
                            let raw = t0.raw.as_ref().unwrap();
                            let w = self.env.borrow();
                            let k = if c.armed_unwoken() {
                                "probe.drop_while_pending"
                            } else if raw.partial > 0 {
                                "probe.drop_while_mid_batch"
                            } else if w.auditor_on && w.msgs.len() - raw.cursor > w.capacity {
                                "probe.drop_while_lagged"
                            } else if w.auditor_on && w.msgs.len() > raw.cursor {
                                "probe.drop_while_behind"
                            } else {
                                "probe.drop_other"
                            };
                            drop(w);
                            drop(t0);
                            self.count(k);
                        }
                        self.env.borrow_mut().dropped = true;
                        drop(v);
                        self.after_producer_step(Expected::Nothing, None, &["C08"]);
                    }
                }
                Step::PollPreempted { j, at, ops, drop_vector, as_tx } => {
                    if self.consumers.is_empty() {
                        continue;
                    }
                    let j = j % self.consumers.len();
                    // (with the always-up-to-date auditor on, the reference it provides would have to
                    // be polled in the middle of the poll as well: such runs poll plainly)
                    if vec.is_none() || self.env.borrow().auditor_on || !self.consumers[j].live() {
                        self.poll_consumer(j);
                    } else {
                        self.poll_preempted(vec, j, *at, ops, *drop_vector, *as_tx);
                    }
                }
                Step::TxRollback | Step::TxCommit | Step::TxDrop | Step::TravEnd => {}
                s if s.is_trav_decision() => {}
                s => self.exec_aux_step(s),
            }
            if self.failed() {
                return;
            }
        }
    }

    /// F8: one poll of consumer `j` during which, at the `at`-th preemption point inside the
    /// library's receive path, the writer executes `ops` (and possibly drops the vector).
    fn poll_preempted(&mut self, vec: &mut Option<ObservableVector<Elem>>, j: usize, at: u8, ops: &[Step], drop_vector: bool, as_tx: bool) {
        let floor = self.env.borrow().boundaries.len() - 1;
        self.env.borrow_mut().poll_floor = Some(floor);
        super::preempt::arm(super::preempt::Armed {
            countdown: at as u32,
            ops: ops.to_vec(),
            drop_vector,
            as_tx,
            vec: vec as *mut Option<ObservableVector<Elem>>,
            env: self.env.clone(),
            fired: false,
            applied: 0,
            limit_sets: 0,
            dropped: false,
            panicked: None,
        });
        self.poll_consumer(j);
        let a = super::preempt::disarm();
        self.env.borrow_mut().poll_floor = None;
        // what was announced during the poll is from now on the latest limit announced
        for w in self.limits.writers.iter_mut() {
            let during = std::mem::take(&mut w.during_poll);
            if let Some(&v) = during.last() {
                if w.tap.borrow().input_ended {
                    // the input ended during that poll: the stage may have seen any of them before
                    w.late.extend(during.iter().copied());
                } else {
                    w.announced = Some(v);
                }
            }
        }
        let Some(a) = a else { return };
        if !a.fired {
            self.count("probe.preemption_point_not_reached");
            return;
        }
        self.count("fault.F8_writer_ran_inside_a_poll");
        self.faults_fired += 1;
        if a.limit_sets > 0 {
            self.count("probe.limit_set_inside_a_poll");
        }
        self.producer_steps += a.applied as u64;
        self.model = self.env.borrow().contents.clone();
        if as_tx && a.applied > 0 {
            self.count("probe.commit_inside_a_poll");
        }
        if a.dropped {
            self.count("fault.F2_producer_dropped");
            self.count("probe.drop_inside_a_poll");
        }
        if a.applied as usize > self.env.borrow().capacity {
            self.count("probe.overflow_inside_a_poll");
        }
        if let Some(p) = a.panicked {
            self.violate(&["C17"], "mutator_panicked", -1, format!("a direct mutator panicked while a subscriber was inside poll_next: {p}"));
            return;
        }
        if self.failed() {
            return;
        }
        self.audit_armed();
    }

    /// End of the case: reach quiescence, then the end-of-run oracles.
    fn finish(&mut self, vec: &mut Option<ObservableVector<Elem>>) {
        self.settle();
        if self.failed() {
            return;
        }
        // wake oracle (a)/(d): nobody is left armed while something is available
        for j in 0..self.consumers.len() {
            if self.consumers[j].armed_unwoken() {
                self.poll_consumer(j);
                if self.failed() {
                    return;
                }
            }
        }
        self.settle();
        if self.failed() {
            return;
        }
        if vec.is_none() {
            for c in &self.consumers {
                if c.live() {
                    let mut ps = c.relevant_props();
                    ps.push("C08");
                    self.violate(&ps, "not_ended_after_drop", -1, format!("the vector was dropped but consumer {} still reports Pending at quiescence", c.id));
                    return;
                }
            }
        }
        // C13 / C05: batched == unbatched for fixed parameters when neither lagged
        for j in 0..self.consumers.len() {
            let Some(k) = self.consumers[j].twin else { continue };
            let (a, b) = (&self.consumers[j], &self.consumers[k]);
            if a.outer.is_none() || b.outer.is_none() {
                continue;
            }
            if a.spec.chain.iter().any(|s| s.lim().is_some()) {
                continue;
            }
            let lagged = |c: &Consumer| c.taps[0].borrow().raw.as_ref().unwrap().saw_reset;
            if lagged(a) || lagged(b) {
                continue;
            }
            let flat = |c: &Consumer| -> Vec<DiffD> { c.taps.last().unwrap().borrow().received.iter().flatten().cloned().collect() };
            let (fa, fb) = (flat(a), flat(b));
            self.count("probe.twin_compared");
            if fa != fb {
                let ps: Vec<&str> = if a.spec.chain.is_empty() { vec!["C05"] } else { vec!["C13"] };
                let (plain, batched) = if a.batched { (fb, fa) } else { (fa, fb) };
                self.violate(&ps, "batched_differs_from_unbatched", -1, format!("chain {:?}: the unbatched stream delivered {:?}, the batched stream (concatenated) {:?}", a.spec.chain, plain, batched));
                return;
            }
        }
    }

    fn teardown(&mut self, vec: Option<ObservableVector<Elem>>, seed: u64) {
        let failed = self.failed();
        let mut rng = Rng::for_run(seed, 99, 0);
        // handles to drop: consumers, limit sources, auditor, vector
        let mut vec = vec;
        let mut order: Vec<usize> = (0..self.consumers.len() + 3).collect();
        for i in (1..order.len()).rev() {
            order.swap(i, rng.below(i + 1));
        }
        let nc = self.consumers.len();
        let r = catch_unwind(AssertUnwindSafe(|| {
            for o in order {
                if o < nc {
                    self.consumers[o].outer = None;
                } else if o == nc {
                    self.limits.sources.clear();
                } else if o == nc + 1 {
                    self.auditor = None;
                } else {
                    vec.take();
                }
            }
            for c in &mut self.consumers {
                for t in &c.taps {
                    let mut t = t.borrow_mut();
                    t.replica = Vector::new();
                    t.prev = None;
                }
            }
        }));
        if failed {
            return;
        }
        if let Err(p) = r {
            self.violate(&["C20"], "drop_panicked", -1, format!("teardown panicked: {}", panic_msg(&p)));
            return;
        }
        let errs = track::take_errors();
        if let Some(e0) = errs.first() {
            self.violate(&["C20"], "double_drop", -1, e0.clone());
            return;
        }
        let live = track::live();
        if live != 0 {
            let (c, cl, d) = track::counts();
            self.violate(&["C20"], "leak", -1, format!("{} value instance(s) still alive after every handle, stream and diff was dropped (created {}, cloned {}, dropped {})", live, c, cl, d));
        }
        let (c, cl, _) = track::counts();
        let mut w = self.env.borrow_mut();
        w.counters.add("c20.values_created", c);
        w.counters.add("c20.values_cloned", cl);
    }
}

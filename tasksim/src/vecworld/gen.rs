//! Seeded case generator for the vector world (swarm style: every run draws its own configuration,
//! op mix, enabled fault kinds and poll policy). All choices come from the run's `Rng`.

use super::steps::*;
use crate::rng::Rng;
use crate::track::V;

#[derive(Clone, Copy, PartialEq, Eq, Debug)]
pub enum ChainSel {
    None,
    Hts,
    HtsFixedHeadTail,
    Filter,
    Sort,
    Any,
}

#[derive(Clone, Debug)]
pub struct Profile {
    pub prop: &'static str,
    pub chain: ChainSel,
    /// inclusive range of chain lengths
    pub chain_len: (usize, usize),
    pub caps: &'static [usize],
    pub p_batched: (usize, usize),
    pub p_twin: (usize, usize),
    pub w_tx: u32,
    pub w_trav: u32,
    pub w_bad: u32,
    pub w_drop_vec: u32,
    pub w_lim: u32,
    pub w_sub: u32,
    pub w_drop_consumer: u32,
    pub p_auditor: (usize, usize),
    pub p_audit_every: (usize, usize),
    /// share of runs that start with a vector of 12–80 items (beyond the inline / single-chunk forms of imbl)
    pub p_big: (usize, usize),
    /// dynamic parameters allowed
    pub dynamic: bool,
    pub max_consumers: usize,
}

pub fn profile(prop: &str) -> Profile {
    let base = Profile {
        prop: "C05",
        chain: ChainSel::None,
        chain_len: (0, 0),
        caps: &[1, 2, 3, 5, 6, 8, 16, 64],
        p_batched: (1, 2),
        p_twin: (1, 8),
        w_tx: 8,
        w_trav: 4,
        w_bad: 2,
        w_drop_vec: 2,
        w_lim: 0,
        w_sub: 6,
        w_drop_consumer: 2,
        p_auditor: (3, 4),
        p_audit_every: (1, 2),
        p_big: (1, 12),
        dynamic: true,
        max_consumers: 4,
    };
    match prop {
        "C05" => Profile { prop: "C05", caps: &[16, 32, 64], p_twin: (1, 3), ..base },
        "C06" => Profile { prop: "C06", caps: &[1, 2, 3, 5, 6, 8], w_drop_consumer: 1, p_auditor: (1, 2), ..base },
        "C07" => Profile { prop: "C07", w_tx: 30, chain: ChainSel::Any, chain_len: (0, 1), ..base },
        "C08" => Profile { prop: "C08", w_drop_vec: 8, caps: &[1, 2, 3, 4, 8, 16], p_auditor: (1, 2), ..base },
        "C09" => Profile { prop: "C09", chain: ChainSel::Hts, chain_len: (1, 1), w_lim: 14, ..base },
        "C10" => Profile { prop: "C10", chain: ChainSel::Filter, chain_len: (1, 1), caps: &[1, 2, 4, 16, 64], ..base },
        "C11" => Profile { prop: "C11", chain: ChainSel::Sort, chain_len: (1, 1), caps: &[1, 2, 4, 16, 64], p_big: (1, 5), ..base },
        "C12" => Profile { prop: "C12", chain: ChainSel::Any, chain_len: (2, 3), w_lim: 10, caps: &[2, 4, 16, 64], ..base },
        "C13" => Profile {
            prop: "C13",
            chain: ChainSel::Any,
            chain_len: (0, 2),
            caps: &[32, 64],
            p_batched: (1, 1),
            p_twin: (2, 3),
            w_tx: 25,
            w_lim: 4,
            w_drop_consumer: 0,
            ..base
        },
        "C14" => Profile {
            prop: "C14",
            chain: ChainSel::Any,
            chain_len: (0, 3),
            w_lim: 14,
            w_drop_vec: 5,
            p_audit_every: (7, 8),
            caps: &[1, 2, 4, 16],
            ..base
        },
        "C15" => Profile { prop: "C15", chain: ChainSel::HtsFixedHeadTail, chain_len: (1, 2), dynamic: false, caps: &[1, 4, 16, 64], ..base },
        "C17" => Profile { prop: "C17", w_trav: 14, w_bad: 10, w_tx: 12, w_sub: 3, ..base },
        "C20" => Profile { prop: "C20", chain: ChainSel::Any, chain_len: (0, 3), w_lim: 6, w_drop_consumer: 6, w_drop_vec: 4, p_big: (1, 3), ..base },
        _ => base,
    }
}

struct Shadow {
    outsized: bool,
    len: usize,
    tx: Option<usize>,
    consumers: usize,
    sources: usize,
    dropped: bool,
    next_uid: u16,
    seen: Vec<V>,
}

impl Shadow {
    fn cur_len(&self) -> usize {
        self.tx.unwrap_or(self.len)
    }
    fn set_len(&mut self, n: usize) {
        if self.tx.is_some() {
            self.tx = Some(n);
        } else {
            self.len = n;
        }
    }
}

fn value(sh: &mut Shadow, rng: &mut Rng) -> V {
    if !sh.seen.is_empty() && rng.chance(1, 10) {
        return *rng.pick(&sh.seen);
    }
    let v = V(rng.below(4) as u8, sh.next_uid);
    sh.next_uid += 1;
    sh.seen.push(v);
    v
}

fn lim_value(sh: &Shadow, rng: &mut Rng) -> usize {
    // 0 ..= len + 3, biased to the interesting region around the length
    let n = sh.cur_len();
    if sh.outsized && rng.chance(1, 6) {
        return n + 4 + rng.below(70);
    }
    match rng.below(8) {
        0 => 0,
        1 => n,
        2 => n + 1 + rng.below(3),
        3 => n.saturating_sub(1),
        _ => rng.below(n + 4),
    }
}

fn lim_spec(sh: &Shadow, rng: &mut Rng, share_ok: bool) -> LimSpec {
    let kind = match rng.below(5) {
        0 | 1 => LimKind::EyeballSubscribe,
        2 => LimKind::EyeballSubscribeReset,
        _ => LimKind::Scripted,
    };
    let share = if share_ok && sh.sources > 0 && kind != LimKind::Scripted && rng.chance(1, 3) { Some(rng.below(sh.sources)) } else { None };
    LimSpec { kind, initial: lim_value(sh, rng), share }
}

fn hts_stage(sh: &Shadow, rng: &mut Rng, dynamic: bool, obs_ok: bool) -> StageSpec {
    let n = lim_value(sh, rng);
    let variants = if dynamic { 3 } else { 1 };
    let l = lim_spec(sh, rng, true);
    match (rng.below(3), rng.below(variants)) {
        (0, 0) => StageSpec::Head(n),
        (1, 0) => StageSpec::Tail(n),
        (_, 0) => StageSpec::Skip(n),
        (0, 1) => {
            if obs_ok && rng.chance(1, 2) {
                StageSpec::ObsDynHead(l)
            } else {
                StageSpec::DynHead(l)
            }
        }
        (1, 1) => {
            if obs_ok && rng.chance(1, 2) {
                StageSpec::ObsDynTail(l)
            } else {
                StageSpec::DynTail(l)
            }
        }
        (_, 1) => {
            if obs_ok && rng.chance(1, 2) {
                StageSpec::ObsDynSkip(l)
            } else {
                StageSpec::DynSkip(l)
            }
        }
        (0, _) => {
            if obs_ok && rng.chance(1, 3) {
                StageSpec::ObsDynHeadInit(n, l)
            } else {
                StageSpec::DynHeadInit(n, l)
            }
        }
        (1, _) => {
            if obs_ok && rng.chance(1, 3) {
                StageSpec::ObsDynTailInit(n, l)
            } else {
                StageSpec::DynTailInit(n, l)
            }
        }
        (_, _) => {
            if obs_ok && rng.chance(1, 3) {
                StageSpec::ObsDynSkipInit(n, l)
            } else {
                StageSpec::DynSkipInit(n, l)
            }
        }
    }
}

fn stage(p: &Profile, sh: &Shadow, rng: &mut Rng, pos: usize, len: usize) -> StageSpec {
    let not_last = pos + 1 < len;
    match p.chain {
        ChainSel::None => unreachable!(),
        ChainSel::Hts => hts_stage(sh, rng, p.dynamic, false),
        ChainSel::HtsFixedHeadTail => {
            // the fixed-limit Head/Tail is the last stage; anything fixed may sit below it
            if not_last {
                match rng.below(4) {
                    0 => StageSpec::Filter(rng.below(16) as u8),
                    1 => StageSpec::SortBy,
                    2 => StageSpec::Skip(lim_value(sh, rng)),
                    _ => StageSpec::Head(lim_value(sh, rng)),
                }
            } else if rng.chance(1, 2) {
                StageSpec::Head(lim_value(sh, rng))
            } else {
                StageSpec::Tail(lim_value(sh, rng))
            }
        }
        ChainSel::Filter => {
            if rng.chance(1, 2) {
                StageSpec::Filter(rng.below(16) as u8)
            } else {
                StageSpec::FilterMap(rng.below(16) as u8)
            }
        }
        ChainSel::Sort => *rng.pick(&[StageSpec::Sort, StageSpec::SortBy, StageSpec::SortByKey]),
        ChainSel::Any => match rng.below(10) {
            0..=4 => hts_stage(sh, rng, p.dynamic, not_last),
            5 => StageSpec::Filter(rng.below(16) as u8),
            6 => StageSpec::FilterMap(rng.below(16) as u8),
            7 => StageSpec::Sort,
            8 => StageSpec::SortBy,
            _ => StageSpec::SortByKey,
        },
    }
}

fn consumer_spec(p: &Profile, sh: &Shadow, rng: &mut Rng) -> ConsumerSpec {
    let len = if p.chain == ChainSel::None { 0 } else { rng.range(p.chain_len.0, p.chain_len.1) };
    let chain: Vec<StageSpec> = (0..len).map(|i| stage(p, sh, rng, i, len)).collect();
    ConsumerSpec { batched: rng.chance(p.p_batched.0, p.p_batched.1), chain, twin: rng.chance(p.p_twin.0, p.p_twin.1), same_waker: rng.chance(1, 3) }
}

fn n_sources(spec: &ConsumerSpec) -> usize {
    let per = spec.chain.iter().filter(|s| s.lim().map_or(false, |l| l.share.is_none())).count();
    per * if spec.twin { 2 } else { 1 }
}

/// `--no-big` (argv, because Miri does not forward the host environment) keeps every vector small (used by the Miri pass that has aliasing checks on:
/// imbl 5.0.0's FocusMut violates Tree Borrows on multi-chunk vectors, which is the dependency's
/// matter and would drown everything else).
pub static NO_BIG: std::sync::atomic::AtomicBool = std::sync::atomic::AtomicBool::new(false);
fn no_big() -> bool {
    NO_BIG.load(std::sync::atomic::Ordering::Relaxed)
}

pub fn gen_case(prop: &str, rng: &mut Rng) -> Case {
    let mut p = profile(prop);
    // one run in 24 is outsized: long, with vectors of up to ~220 items (several imbl chunks),
    // appends of up to 70 items, limits far beyond the length, more consumers, one more stage in
    // free-form chains and (a third of them) a buffer of 128 messages — for whatever only breaks
    // beyond a small bound
    // (not under Miri, which is ~10^5 times slower: its sample keeps the ordinary sizes)
    let outsized = rng.chance(1, 24) && !no_big() && !cfg!(miri);
    let n_steps = if outsized {
        50 + rng.below(110)
    } else {
        match rng.below(20) {
            0..=7 => 2 + rng.below(6),
            8..=16 => 6 + rng.below(14),
            _ => 20 + rng.below(21),
        }
    };
    let mut capacity = *rng.pick(p.caps);
    if outsized {
        p.max_consumers += 4;
        if p.chain == ChainSel::Any {
            p.chain_len.1 += 1;
        }
        if rng.chance(1, 3) {
            capacity = 128;
        }
    }
    let mut sh = Shadow { outsized, len: 0, tx: None, consumers: 0, sources: 0, dropped: false, next_uid: 1, seen: Vec::new() };
    // mostly small vectors; one run in twelve starts beyond imbl's inline / single-chunk
    // representations (different code paths for clone, ptr_eq, split, append)
    let big = (rng.chance(p.p_big.0, p.p_big.1) || (outsized && rng.chance(1, 2))) && !no_big();
    let initial: Vec<V> = if big && outsized {
        (0..60 + rng.below(140)).map(|_| value(&mut sh, rng)).collect()
    } else if big {
        (0..12 + rng.below(70)).map(|_| value(&mut sh, rng)).collect()
    } else if rng.chance(1, 2) {
        (0..rng.below(6)).map(|_| value(&mut sh, rng)).collect()
    } else {
        Vec::new()
    };
    sh.len = initial.len();
    let config = Config {
        capacity,
        initial,
        auditor: rng.chance(p.p_auditor.0, p.p_auditor.1),
        audit_every_step: rng.chance(p.p_audit_every.0, p.p_audit_every.1),
        kf_retire: true,
        teardown: rng.next_u64() >> 16,
    };
    // swarm: per-run op mix
    let mut w_ops: [u32; 12] = [10, 8, 6, 6, 8, 8, 8, 4, 5, 2, 3, 3];
    for w in w_ops.iter_mut() {
        if rng.chance(1, 4) {
            *w = 0;
        }
    }
    if w_ops.iter().all(|&w| w == 0) {
        w_ops[0] = 10;
    }
    let sw = |rng: &mut Rng, w: u32| if rng.chance(1, 5) { 0 } else { w };
    let w_tx = sw(rng, p.w_tx);
    let w_trav = sw(rng, p.w_trav);
    let w_bad = sw(rng, p.w_bad);
    let w_drop_vec = sw(rng, p.w_drop_vec);
    let w_lim = p.w_lim;
    let w_dropc = sw(rng, p.w_drop_consumer);
    // poll policy of the run: how eagerly woken consumers are polled after a producer step
    let mut eager = *rng.pick(&[0usize, 0, 1, 2, 3, 4]);
    let mut w_poll_any = *rng.pick(&[0u32, 3, 8]);
    // outsized runs: half of them keep a transaction open for dozens of operations (a batch of more
    // than 16 / 32 / 64 diffs), half of them hardly poll at all before the end (dozens of messages
    // waiting for one poll)
    let long_tx = outsized && rng.chance(1, 2);
    if outsized && rng.chance(1, 2) {
        eager = 0;
        w_poll_any = *rng.pick(&[0u32, 0, 1]);
    }
    let w_settle = *rng.pick(&[0u32, 2, 6]);
    let grow_bias = rng.chance(1, 2);

    // bursts: stretches of producer steps during which woken consumers are not polled (this is what
    // lets a consumer fall behind while it is in the middle of yielding a multi-diff batch)
    let burst_p = *rng.pick(&[0usize, 1, 2, 4]);
    let mut burst_left = 0usize;
    let mut steps: Vec<Step> = Vec::new();
    // most runs want a consumer early
    if p.w_sub > 0 && rng.chance(4, 5) {
        let spec = consumer_spec(&p, &sh, rng);
        sh.sources += n_sources(&spec);
        sh.consumers += 1 + spec.twin as usize;
        steps.push(Step::Subscribe(spec));
    }
    while steps.len() < n_steps {
        let in_tx = sh.tx.is_some();
        let writer_total: u32 = 60;
        let cats = [
            writer_total,                                                     // 0 direct/tx op
            if in_tx { 0 } else { w_tx },                                     // 1 tx begin
            if !in_tx { 0 } else if long_tx { 1 } else { 12 },                // 2 tx end/rollback
            w_trav,                                                           // 3 traversal
            w_bad,                                                            // 4 bad op
            if in_tx || sh.consumers >= p.max_consumers { 0 } else { p.w_sub }, // 5 subscribe
            if in_tx { 0 } else { w_drop_vec },                               // 6 drop vector
            if sh.sources > 0 { w_lim } else { 0 },                           // 7 limit step
            if sh.consumers > 0 { w_poll_any } else { 0 },                    // 8 poll any (maybe spurious)
            if sh.consumers > 0 { w_settle } else { 0 },                      // 9 settle
            if sh.consumers > 0 { w_dropc } else { 0 },                       // 10 drop consumer
        ];
        let mut producer = true;
        match rng.weighted(&cats) {
            0 => {
                let n = sh.cur_len();
                let mut w = w_ops;
                if n >= if outsized { 220 } else if big { 90 } else { 8 } {
                    w[0] = 0;
                    w[1] = 0;
                    w[4] = 0;
                    w[8] = 0;
                } else if grow_bias && n < 3 {
                    w[0] += 10;
                    w[8] += 6;
                }
                if w.iter().all(|&x| x == 0) {
                    w[2] = 5;
                    w[9] = 1;
                }
                let s = match rng.weighted(&w) {
                    0 => {
                        sh.set_len(n + 1);
                        Step::PushBack(value(&mut sh, rng))
                    }
                    1 => {
                        sh.set_len(n + 1);
                        Step::PushFront(value(&mut sh, rng))
                    }
                    2 => {
                        sh.set_len(n.saturating_sub(1));
                        Step::PopBack
                    }
                    3 => {
                        sh.set_len(n.saturating_sub(1));
                        Step::PopFront
                    }
                    4 => {
                        sh.set_len(n + 1);
                        Step::Insert(rng.below(n + 1), value(&mut sh, rng))
                    }
                    5 => Step::Set(rng.below(n.max(1)), value(&mut sh, rng)),
                    6 => {
                        sh.set_len(n.saturating_sub(1));
                        Step::Remove(rng.below(n.max(1)))
                    }
                    7 => {
                        let t = rng.below(n + 3);
                        sh.set_len(n.min(t));
                        Step::Truncate(t)
                    }
                    8 => {
                        let k = if outsized && rng.chance(1, 3) { 4 + rng.below(67) } else { rng.below(4) };
                        sh.set_len(n + k);
                        Step::Append((0..k).map(|_| value(&mut sh, rng)).collect())
                    }
                    9 => {
                        sh.set_len(0);
                        Step::Clear
                    }
                    10 => Step::EntrySet(rng.below(n.max(1)), value(&mut sh, rng)),
                    _ => {
                        sh.set_len(n.saturating_sub(1));
                        Step::EntryRemove(rng.below(n.max(1)))
                    }
                };
                steps.push(s);
            }
            1 => {
                sh.tx = Some(sh.len);
                steps.push(Step::TxBegin);
            }
            2 => match rng.below(10) {
                0..=5 => {
                    sh.len = sh.tx.take().unwrap();
                    steps.push(Step::TxCommit);
                    if sh.consumers > 0 && rng.chance(burst_p, 8) {
                        // take the first diff of the batch only, then let the writer run ahead
                        steps.push(Step::Poll(rng.below(sh.consumers)));
                        burst_left = 2 + rng.below(5);
                    }
                }
                6 | 7 => {
                    sh.tx = None;
                    steps.push(Step::TxDrop);
                }
                _ => {
                    sh.tx = Some(sh.len);
                    steps.push(Step::TxRollback);
                }
            },
            3 => {
                // traversal: one decision per element (approximately), consumer steps in between
                steps.push(Step::TravBegin { for_each: rng.chance(1, 3) });
                let n = sh.cur_len();
                let mut m = n;
                let stop_at = if rng.chance(1, 4) { rng.below(n + 1) } else { usize::MAX };
                for i in 0..n {
                    if i == stop_at {
                        break;
                    }
                    if sh.consumers > 0 && rng.chance(1, 4) {
                        steps.push(Step::PollWoken(rng.below(4)));
                    }
                    steps.push(match rng.below(8) {
                        0..=3 => Step::TravKeep,
                        4 => Step::TravSet(value(&mut sh, rng)),
                        5 | 6 => {
                            m -= 1;
                            Step::TravRemove
                        }
                        _ => {
                            m -= 1;
                            Step::TravSetRemove(value(&mut sh, rng))
                        }
                    });
                }
                steps.push(Step::TravEnd);
                sh.set_len(m);
            }
            4 => steps.push(match rng.below(4) {
                0 => Step::BadInsert(rng.below(3), value(&mut sh, rng)),
                1 => Step::BadSet(rng.below(3), value(&mut sh, rng)),
                2 => Step::BadRemove(rng.below(3)),
                _ => Step::BadEntry(rng.below(3)),
            }),
            5 => {
                let spec = consumer_spec(&p, &sh, rng);
                sh.sources += n_sources(&spec);
                sh.consumers += 1 + spec.twin as usize;
                steps.push(Step::Subscribe(spec));
            }
            6 => {
                if !sh.dropped {
                    sh.dropped = true;
                    steps.push(Step::DropVector);
                } else {
                    producer = false;
                }
            }
            7 => {
                let i = rng.below(sh.sources);
                steps.push(match rng.below(12) {
                    0 => Step::LimDrop(i),
                    1 | 2 => Step::LimSetIfNotEq(i, lim_value(&sh, rng)),
                    _ => Step::LimSet(i, lim_value(&sh, rng)),
                });
            }
            8 => {
                producer = false;
                if !config.auditor && !in_tx && !sh.dropped && rng.chance(1, 2) {
                    // F8: the writer thread runs in the middle of this poll
                    // mostly a few operations; one time in four enough to overflow the buffer whatever
                    // its capacity (a lag that begins inside the poll)
                    let k = if rng.chance(1, 4) && capacity <= 64 { capacity + 1 + rng.below(3) } else { 1 + rng.below(capacity.min(6) + 2) };
                    let mut ops = Vec::new();
                    for _ in 0..k {
                        let n = sh.cur_len();
                        if sh.sources > 0 && w_lim > 0 && rng.chance(1, 3) {
                            // the thread owning a limit observable runs too
                            let i = rng.below(sh.sources);
                            ops.push(if rng.chance(1, 5) { Step::LimSetIfNotEq(i, lim_value(&sh, rng)) } else { Step::LimSet(i, lim_value(&sh, rng)) });
                            continue;
                        }
                        ops.push(match rng.below(10) {
                            0..=5 => {
                                sh.set_len(n + 1);
                                Step::PushBack(value(&mut sh, rng))
                            }
                            6 => {
                                sh.set_len(n.saturating_sub(1));
                                Step::PopFront
                            }
                            7 => Step::Set(rng.below(n.max(1)), value(&mut sh, rng)),
                            8 => {
                                sh.set_len(n + 1);
                                Step::Insert(rng.below(n + 1), value(&mut sh, rng))
                            }
                            _ => {
                                sh.set_len(n.saturating_sub(1));
                                Step::Remove(rng.below(n.max(1)))
                            }
                        });
                    }
                    let drop_vector = rng.chance(1, 6);
                    if drop_vector {
                        sh.dropped = true;
                    }
                    let as_tx = rng.chance(1, 4);
                    steps.push(Step::PollPreempted { j: rng.below(sh.consumers), at: *rng.pick(&[0u8, 0, 1, 1, 2, 3, 4, 6]), ops, drop_vector, as_tx });
                } else {
                    steps.push(Step::Poll(rng.below(sh.consumers)));
                }
            }
            9 => {
                producer = false;
                steps.push(Step::Settle);
            }
            _ => {
                producer = false;
                steps.push(Step::DropConsumer(rng.below(sh.consumers)));
            }
        }
        if burst_left > 0 {
            burst_left -= 1;
        } else if rng.chance(burst_p, 40) {
            burst_left = 2 + rng.below(5);
        }
        if producer && sh.consumers > 0 && burst_left == 0 {
            // wake delivery: how many of the woken consumers get to run now
            for _ in 0..eager {
                if rng.chance(2, 3) {
                    steps.push(Step::PollWoken(rng.below(4)));
                }
            }
        }
    }
    Case { config, steps }
}

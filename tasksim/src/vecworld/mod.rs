pub mod chain;
pub mod check;
pub mod exec;
pub mod gen;
pub mod steps;
pub mod tap;
pub mod txenum;
pub mod view;

//! F8 for the vector world: the thread that owns the `ObservableVector` runs *in the middle of* a
//! subscriber's `poll_next`. eyeball-im is built with its verification hook on, so its broadcast
//! channel is `eyeball-verif-broadcast` (tokio's channel plus a preemption point before and after
//! every receive operation, no tokio lock held). When a `PollPreempted` step arms this module, the
//! `at`-th point reached during that one poll executes the step's writer operations — direct
//! mutators on the real vector, optionally followed by dropping it — and updates the model
//! (`contents`, `boundaries`, `dropped`) at that very moment, exactly as a writer thread scheduled
//! there would. One thread, one PRNG, exactly repeatable.

use super::steps::Step;
use super::tap::Env;
use crate::track::{Elem, V};
use eyeball_im::ObservableVector;
use std::cell::RefCell;
use std::panic::{catch_unwind, AssertUnwindSafe};

pub struct Armed {
    pub countdown: u32,
    pub ops: Vec<Step>,
    pub drop_vector: bool,
    pub as_tx: bool,
    pub vec: *mut Option<ObservableVector<Elem>>,
    pub env: Env,
    pub fired: bool,
    pub applied: u32,
    pub limit_sets: u32,
    pub dropped: bool,
    pub panicked: Option<String>,
}

thread_local! {
    static ARMED: RefCell<Option<Armed>> = const { RefCell::new(None) };
    /// The interpreter's limit sources and the consumer being polled, valid only while that
    /// consumer's stream is being polled (set right before, cleared right after).
    static LIMITS: std::cell::Cell<(*mut super::chain::Limits, usize)> = const { std::cell::Cell::new((std::ptr::null_mut(), 0)) };
}

pub fn set_limits(p: *mut super::chain::Limits, consumer: usize) {
    LIMITS.with(|l| l.set((p, consumer)));
}

pub fn clear_limits() {
    LIMITS.with(|l| l.set((std::ptr::null_mut(), 0)));
}

pub fn install() {
    eyeball_verif_broadcast::set_hook(Some(hook));
}

pub fn arm(a: Armed) {
    ARMED.with(|x| *x.borrow_mut() = Some(a));
}

pub fn disarm() -> Option<Armed> {
    ARMED.with(|x| x.borrow_mut().take())
}

fn hook() {
    let taken = ARMED.with(|x| {
        let mut g = x.borrow_mut();
        match g.as_mut() {
            Some(a) if !a.fired => {
                if a.countdown > 0 {
                    a.countdown -= 1;
                    None
                } else {
                    a.fired = true;
                    g.take()
                }
            }
            _ => None,
        }
    });
    if let Some(mut a) = taken {
        // (nothing is armed while the writer runs)
        run(&mut a);
        ARMED.with(|x| *x.borrow_mut() = Some(a));
    }
}

fn run(a: &mut Armed) {
    // SAFETY: the pointer was derived from the interpreter's `&mut Option<ObservableVector>` right
    // before the poll that is running now, and the interpreter does not touch that reference until
    // the poll has returned and this module is disarmed.
    let slot = unsafe { &mut *a.vec };
    let r = catch_unwind(AssertUnwindSafe(|| {
        if let Some(v) = slot.as_mut() {
            if a.as_tx {
                // one transaction, one message with all the diffs, one boundary state
                let before = a.env.borrow().contents.clone();
                let mut m = before.clone();
                let mut tx = v.transaction();
                let mut recorded = 0;
                for op in &a.ops {
                    if matches!(op, Step::LimSet(..) | Step::LimSetIfNotEq(..)) {
                        continue;
                    }
                    if apply_plain(&mut tx, &mut m, op) {
                        recorded += 1;
                    }
                }
                tx.commit();
                if recorded > 0 {
                    let mut w = a.env.borrow_mut();
                    if m != before {
                        let j = w.boundaries.len();
                        w.commit_bidx.push(j);
                    }
                    w.contents = m.clone();
                    w.boundaries.push(m);
                    a.applied += 1;
                }
            } else {
                let ops = a.ops.clone();
                for op in &ops {
                    if limit_op(a, op) {
                        continue;
                    }
                    let mut m = a.env.borrow().contents.clone();
                    if apply_plain(v, &mut m, op) {
                        let mut w = a.env.borrow_mut();
                        w.contents = m.clone();
                        w.boundaries.push(m);
                        a.applied += 1;
                    }
                }
            }
        }
        if a.drop_vector && slot.is_some() {
            a.env.borrow_mut().dropped = true;
            a.dropped = true;
            *slot = None;
        }
    }));
    if let Err(p) = r {
        a.panicked = Some(super::exec::panic_msg(&p));
    }
}

/// A limit write among the writer's operations: the thread owning the limit observable runs too.
fn limit_op(a: &mut Armed, op: &Step) -> bool {
    let (i, v, if_not_eq) = match op {
        Step::LimSet(i, v) => (*i, *v, false),
        Step::LimSetIfNotEq(i, v) => (*i, *v, true),
        _ => return false,
    };
    let (p, consumer) = LIMITS.with(|l| l.get());
    if p.is_null() {
        return true;
    }
    // SAFETY: set by the interpreter right before it polled the stream we are inside of, from a
    // fresh `&mut self.limits`; the interpreter touches neither until the poll has returned.
    let limits = unsafe { &mut *p };
    if limits.sources.is_empty() {
        return true;
    }
    let i = i % limits.sources.len();
    if !limits.sources[i].alive {
        return true;
    }
    if let Some(val) = super::exec::limit_set(limits, &a.env, i, v, if_not_eq) {
        super::exec::limit_announce(limits, i, val, Some(consumer));
    }
    a.limit_sets += 1;
    true
}

fn e(v: V) -> Elem {
    Elem::new(v)
}

/// One direct mutator, with the interpreter's index clamping. Returns whether the contents changed.
pub fn apply_plain<T: super::exec::VecLike>(t: &mut T, m: &mut Vec<V>, step: &Step) -> bool {
    let len = m.len();
    match step {
        Step::PushBack(v) => {
            t.push_back(e(*v));
            m.push(*v);
            true
        }
        Step::PushFront(v) => {
            t.push_front(e(*v));
            m.insert(0, *v);
            true
        }
        Step::PopBack => {
            t.pop_back();
            m.pop().is_some()
        }
        Step::PopFront => {
            t.pop_front();
            if m.is_empty() {
                false
            } else {
                m.remove(0);
                true
            }
        }
        Step::Insert(i, v) => {
            let i = i % (len + 1);
            t.insert(i, e(*v));
            m.insert(i, *v);
            true
        }
        Step::Set(i, v) => {
            if len == 0 {
                return false;
            }
            let i = i % len;
            t.set(i, e(*v));
            m[i] = *v;
            true
        }
        Step::Remove(i) => {
            if len == 0 {
                return false;
            }
            let i = i % len;
            t.remove(i);
            m.remove(i);
            true
        }
        Step::Truncate(n) => {
            let n = n % (len + 3);
            t.truncate(n);
            if n < len {
                m.truncate(n);
                true
            } else {
                false
            }
        }
        Step::Append(vs) => {
            if vs.is_empty() {
                // (whether an empty append publishes anything is C05's business, not this module's)
                return false;
            }
            t.append(vs.iter().map(|v| e(*v)).collect());
            m.extend(vs.iter().copied());
            true
        }
        Step::Clear => {
            t.clear();
            let was = !m.is_empty();
            m.clear();
            was
        }
        _ => false,
    }
}

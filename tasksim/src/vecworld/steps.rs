//! Step vocabulary of the vector world (DESIGN.md Appendix A). A run is `Case = Config + Vec<Step>`;
//! the interpreter clamps or skips steps that are inapplicable in the state they meet, so any
//! sub-sequence of a case is again a case (this is what makes minimisation sound).

use crate::track::V;
use serde::{Deserialize, Serialize};

#[derive(Clone, Debug, Serialize, Deserialize, PartialEq, Eq)]
pub enum Step {
    // --- writer: the eleven mutators + entry ops; applied to the open transaction if there is one
    PushBack(V),
    PushFront(V),
    PopBack,
    PopFront,
    Insert(usize, V),
    Set(usize, V),
    Remove(usize),
    Truncate(usize),
    Append(Vec<V>),
    Clear,
    EntrySet(usize, V),
    EntryRemove(usize),
    // --- F6 caller errors: index = len + 1 + excess (insert) / len + excess (others)
    BadInsert(usize, V),
    BadSet(usize, V),
    BadRemove(usize),
    BadEntry(usize),
    // --- traversal with one decision per visited element; consumer steps may sit in between
    TravBegin { for_each: bool },
    TravKeep,
    TravSet(V),
    TravRemove,
    TravSetRemove(V),
    TravEnd,
    // --- transactions (F3: the abandonment point is wherever TxDrop / TxRollback sits)
    TxBegin,
    TxRollback,
    TxCommit,
    TxDrop,
    // --- handles
    Subscribe(ConsumerSpec),
    DropVector,
    // --- limit writers (one per dynamic stage, created with the consumer)
    LimSet(usize, usize),
    LimSetIfNotEq(usize, usize),
    LimDrop(usize),
    // --- consumer tasks
    Poll(usize),
    PollWoken(usize),
    DropConsumer(usize),
    Settle,
    /// F8 in the vector world: poll consumer `j`; at the `at`-th preemption point reached inside the
    /// library's receive path during that poll, the writer thread runs `ops` (direct mutators) and
    /// then possibly drops the vector. Executed as a plain poll when the auditor is on, the vector
    /// is gone or borrowed by a transaction / traversal.
    PollPreempted {
        j: usize,
        at: u8,
        ops: Vec<Step>,
        drop_vector: bool,
        /// the ops are the body of one transaction, committed inside the poll (one multi-diff message)
        #[serde(default)]
        as_tx: bool,
    },
}

impl Step {
    pub fn is_writer_op(&self) -> bool {
        use Step::*;
        matches!(
            self,
            PushBack(_) | PushFront(_) | PopBack | PopFront | Insert(..) | Set(..) | Remove(_) | Truncate(_)
                | Append(_) | Clear | EntrySet(..) | EntryRemove(_) | BadInsert(..) | BadSet(..) | BadRemove(_)
                | BadEntry(_)
        )
    }
    pub fn is_trav_decision(&self) -> bool {
        use Step::*;
        matches!(self, TravKeep | TravSet(_) | TravRemove | TravSetRemove(_))
    }
    pub fn is_consumer_step(&self) -> bool {
        use Step::*;
        matches!(self, Poll(_) | PollWoken(_) | DropConsumer(_) | Settle | PollPreempted { .. })
    }
    pub fn is_limit_step(&self) -> bool {
        use Step::*;
        matches!(self, LimSet(..) | LimSetIfNotEq(..) | LimDrop(_))
    }
    pub fn kind_code(&self) -> u64 {
        use Step::*;
        match self {
            PushBack(_) => 1,
            PushFront(_) => 2,
            PopBack => 3,
            PopFront => 4,
            Insert(..) => 5,
            Set(..) => 6,
            Remove(_) => 7,
            Truncate(_) => 8,
            Append(_) => 9,
            Clear => 10,
            EntrySet(..) => 11,
            EntryRemove(_) => 12,
            BadInsert(..) => 13,
            BadSet(..) => 14,
            BadRemove(_) => 15,
            BadEntry(_) => 16,
            TravBegin { for_each } => 17 + *for_each as u64,
            TravKeep => 19,
            TravSet(_) => 20,
            TravRemove => 21,
            TravSetRemove(_) => 22,
            TravEnd => 23,
            TxBegin => 24,
            TxRollback => 25,
            TxCommit => 26,
            TxDrop => 27,
            Subscribe(_) => 28,
            DropVector => 29,
            LimSet(..) => 30,
            LimSetIfNotEq(..) => 31,
            LimDrop(_) => 32,
            Poll(_) => 33,
            PollWoken(_) => 34,
            DropConsumer(_) => 35,
            Settle => 36,
            PollPreempted { at, ops, drop_vector, as_tx, .. } => 37 + 64 * (*at as u64 + 8 * ops.len() as u64) + 4096 * *drop_vector as u64 + 8192 * *as_tx as u64,
        }
    }
}

#[derive(Clone, Debug, Serialize, Deserialize, PartialEq, Eq)]
pub struct ConsumerSpec {
    pub batched: bool,
    pub chain: Vec<StageSpec>,
    /// Also create the same chain on the other stream flavour (C13: batched == unbatched).
    pub twin: bool,
    /// Poll with one and the same waker every time (what an executor does for a task) instead of a
    /// fresh waker per poll: exposes code that skips registration when `will_wake` says "same".
    #[serde(default)]
    pub same_waker: bool,
}

#[derive(Clone, Copy, Debug, Serialize, Deserialize, PartialEq, Eq)]
pub enum LimKind {
    /// `eyeball::Observable::<usize>::subscribe` — nothing announced until the first update.
    EyeballSubscribe,
    /// `subscribe_reset` — the current value is announced at once.
    EyeballSubscribeReset,
    /// Harness stream that yields every pushed value (no coalescing) and can end.
    Scripted,
}

#[derive(Clone, Copy, Debug, Serialize, Deserialize, PartialEq, Eq)]
pub struct LimSpec {
    pub kind: LimKind,
    /// Initial value stored in the eyeball observable backing the limit.
    pub initial: usize,
    /// Observe an existing eyeball limit source (index modulo the number of sources) instead of
    /// creating a new one, so that several adapters are pending on one observable.
    #[serde(default)]
    pub share: Option<usize>,
}

#[derive(Clone, Copy, Debug, Serialize, Deserialize, PartialEq, Eq)]
pub enum StageSpec {
    Head(usize),
    Tail(usize),
    Skip(usize),
    DynHead(LimSpec),
    DynTail(LimSpec),
    DynSkip(LimSpec),
    DynHeadInit(usize, LimSpec),
    DynTailInit(usize, LimSpec),
    DynSkipInit(usize, LimSpec),
    Filter(u8),
    FilterMap(u8),
    Sort,
    SortBy,
    SortByKey,
    /// `dynamic_head(..)` etc. handed to the next stage *as the observer* (VectorObserver::into_parts
    /// of the adapter itself); fused with the following stage, no tap in between.
    ObsDynHead(LimSpec),
    ObsDynTail(LimSpec),
    ObsDynSkip(LimSpec),
    /// the adapter half of `dynamic_*_with_initial_value/count` used as the observer of the next
    /// stage (its initial values are dropped; the next stage must start from the adapter's view)
    ObsDynHeadInit(usize, LimSpec),
    ObsDynTailInit(usize, LimSpec),
    ObsDynSkipInit(usize, LimSpec),
}

impl StageSpec {
    pub fn lim(&self) -> Option<LimSpec> {
        use StageSpec::*;
        match *self {
            DynHead(l) | DynTail(l) | DynSkip(l) | DynHeadInit(_, l) | DynTailInit(_, l) | DynSkipInit(_, l)
            | ObsDynHead(l) | ObsDynTail(l) | ObsDynSkip(l) | ObsDynHeadInit(_, l) | ObsDynTailInit(_, l) | ObsDynSkipInit(_, l) => Some(l),
            _ => None,
        }
    }
    pub fn is_obs(&self) -> bool {
        matches!(self, StageSpec::ObsDynHead(_) | StageSpec::ObsDynTail(_) | StageSpec::ObsDynSkip(_) | StageSpec::ObsDynHeadInit(..) | StageSpec::ObsDynTailInit(..) | StageSpec::ObsDynSkipInit(..))
    }
    pub fn is_sort(&self) -> bool {
        matches!(self, StageSpec::Sort | StageSpec::SortBy | StageSpec::SortByKey)
    }
    pub fn is_tail(&self) -> bool {
        matches!(self, StageSpec::Tail(_) | StageSpec::DynTail(_) | StageSpec::DynTailInit(..) | StageSpec::ObsDynTail(_) | StageSpec::ObsDynTailInit(..))
    }
    /// Property whose statement covers this adapter.
    pub fn prop(&self) -> &'static str {
        use StageSpec::*;
        match self {
            Filter(_) | FilterMap(_) => "C10",
            Sort | SortBy | SortByKey => "C11",
            _ => "C09",
        }
    }
    /// Fixed limit bound (C15): Some(limit) for fixed-limit Head / Tail.
    pub fn fixed_bound(&self) -> Option<usize> {
        match *self {
            StageSpec::Head(n) | StageSpec::Tail(n) => Some(n),
            _ => None,
        }
    }
    pub fn code(&self) -> u64 {
        use StageSpec::*;
        match self {
            Head(_) => 1,
            Tail(_) => 2,
            Skip(_) => 3,
            DynHead(_) => 4,
            DynTail(_) => 5,
            DynSkip(_) => 6,
            DynHeadInit(..) => 7,
            DynTailInit(..) => 8,
            DynSkipInit(..) => 9,
            Filter(_) => 10,
            FilterMap(_) => 11,
            Sort => 12,
            SortBy => 13,
            SortByKey => 14,
            ObsDynHead(_) => 15,
            ObsDynTail(_) => 16,
            ObsDynSkip(_) => 17,
            ObsDynHeadInit(..) => 18,
            ObsDynTailInit(..) => 19,
            ObsDynSkipInit(..) => 20,
        }
    }
}

#[derive(Clone, Debug, Serialize, Deserialize, PartialEq, Eq)]
pub struct Config {
    /// `ObservableVector::with_capacity`.
    pub capacity: usize,
    /// Initial contents, given through `From<Vector<T>>` semantics (append on an empty vector
    /// before anyone subscribes).
    pub initial: Vec<V>,
    /// Auditor: a batched subscriber created first and polled to Pending after every producer step;
    /// ground truth for message boundaries. Off in some runs so that the no-receiver paths run too.
    pub auditor: bool,
    /// Audit-poll every armed consumer after every producer / limit step (wake oracle (a)).
    pub audit_every_step: bool,
    /// Retire consumers that hit the trigger of a listed known finding.
    pub kf_retire: bool,
    /// Order seed for the randomised teardown (C20).
    pub teardown: u64,
}

#[derive(Clone, Debug, Serialize, Deserialize, PartialEq, Eq)]
pub struct Case {
    pub config: Config,
    pub steps: Vec<Step>,
}

/// Plain-data diff as recorded in traces and compared between consumers.
#[derive(Clone, Debug, Serialize, Deserialize, PartialEq, Eq)]
pub enum DiffD {
    Append(Vec<V>),
    Clear,
    PushFront(V),
    PushBack(V),
    PopFront,
    PopBack,
    Insert(usize, V),
    Set(usize, V),
    Remove(usize),
    Truncate(usize),
    Reset(Vec<V>),
}

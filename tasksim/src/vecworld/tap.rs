//! Transparent taps (harness code) between the stages of a consumer's chain. A tap applies what
//! flows through it to a replica of that boundary and evaluates the item-time oracles; the
//! quiescent-point oracles are evaluated by the interpreter from the taps' state.

use super::steps::{DiffD, StageSpec};
use super::view::{checked_apply, same, sort_kind, to_diffd, vs, CmpKind};
use crate::common::{props, Counters, Violation};
use crate::rng::Fingerprint;
use crate::track::{Elem, V};
use eyeball_im::VectorDiff;
use eyeball_im_util::vector::VectorDiffContainer;
use futures_core::Stream;
use imbl::Vector;
use std::cell::{Cell, RefCell};
use std::collections::VecDeque;
use std::pin::Pin;
use std::rc::Rc;
use std::task::{Context, Poll, Waker};

pub type BoxS<I> = Pin<Box<dyn Stream<Item = I>>>;
pub type BoxL = Pin<Box<dyn Stream<Item = usize>>>;

pub trait DiffItem: VectorDiffContainer<Element = Elem> + Sized + 'static {
    const BATCHED: bool;
    fn diffs(&self) -> &[VectorDiff<Elem>];
}
impl DiffItem for VectorDiff<Elem> {
    const BATCHED: bool = false;
    fn diffs(&self) -> &[VectorDiff<Elem>] {
        std::slice::from_ref(self)
    }
}
impl DiffItem for Vec<VectorDiff<Elem>> {
    const BATCHED: bool = true;
    fn diffs(&self) -> &[VectorDiff<Elem>] {
        self
    }
}

/// One broadcast message as seen by the auditor.
#[derive(Clone, Debug)]
pub struct Msg {
    pub diffs: Vec<DiffD>,
    pub state_after: Vec<V>,
    /// published by a commit
    pub commit: bool,
}

pub struct WorldShared {
    /// Committed contents of the vector according to the model.
    pub contents: Vec<V>,
    /// Every state the vector had between top-level operations, in order (index 0 = initial).
    pub boundaries: Vec<Vec<V>>,
    /// Indices into `boundaries` of the states produced by a commit that changed the contents.
    pub commit_bidx: Vec<usize>,
    /// Set during a poll in which the writer may run (F8): index of the newest boundary when the poll
    /// began. "Current contents" then means any state the vector had since.
    pub poll_floor: Option<usize>,
    pub dropped: bool,
    pub capacity: usize,
    pub auditor_on: bool,
    pub msgs: Vec<Msg>,
    pub step: usize,
    pub epoch: u64,
    pub kf_retire: bool,
    pub counters: Counters,
    pub fp: Fingerprint,
    pub violation: Option<Violation>,
}

pub type Env = Rc<RefCell<WorldShared>>;

pub struct ConsumerShared {
    pub id: usize,
    pub chain_len: usize,
    /// Properties of the adapters stacked on the raw stream (plus C12 for chains, C13 if batched).
    pub chain_props: Vec<String>,
    pub retire: Cell<Option<&'static str>>,
    pub violation: RefCell<Option<Violation>>,
}

impl ConsumerShared {
    pub fn violate(&self, env: &Env, ps: &[&str], oracle: &str, stage: i32, detail: String) {
        let mut v = self.violation.borrow_mut();
        if v.is_none() {
            let mut p = props(ps);
            if self.chain_len > 1 && stage > 0 && !p.iter().any(|x| x == "C12") {
                p.push("C12".into());
            }
            // C08: what the raw stream delivers after the vector was dropped is "what is still
            // pending"; an item that is wrong at that point is also a failure to end on the final state
            const AFTER_DROP: &[&str] = &["inapplicable_diff", "diff_depends_on_polling", "replay_mismatch_at_boundary", "batched_intermediate_state", "batched_not_up_to_date", "reset_inside_batch"];
            if stage == 0 && AFTER_DROP.contains(&oracle) && env.borrow().dropped && !p.iter().any(|x| x == "C08") {
                p.push("C08".into());
            }
            // The adapters' statements are about the *source vector*: when the raw stream below them
            // hands out wrong data (lost updates, a stale Reset, a state the vector never had), every
            // adapter stacked on it shows a wrong view of the vector however faithfully it maps its input.
            const WRONG_DATA: &[&str] = &["inapplicable_diff", "replay_mismatch_at_boundary", "batched_intermediate_state", "batched_not_up_to_date", "reset_not_current", "ended_on_stale_state"];
            if stage == 0 && WRONG_DATA.contains(&oracle) {
                for q in &self.chain_props {
                    if !p.contains(q) {
                        p.push(q.clone());
                    }
                }
            }
            *v = Some(Violation { props: p, oracle: oracle.into(), stage, step: env.borrow().step, detail });
        }
    }
}

#[derive(Clone, Copy, Debug, PartialEq, Eq)]
pub enum PollRes {
    NotPolled,
    Pending,
    Item,
    End,
}

pub struct RawInfo {
    /// Messages fully consumed, counted from the start of the auditor log.
    pub cursor: usize,
    /// Diffs consumed of message `cursor` (unbatched stream in the middle of a batch).
    pub partial: usize,
    /// Index into `boundaries` last matched by a batched subscriber.
    pub bidx: usize,
    pub saw_reset: bool,
    /// the last item delivered was the final diff of a multi-diff batch (unbatched stream)
    pub just_finished_batch: bool,
}

pub struct TapState {
    /// 0 = raw subscriber stream; k = output of group k.
    pub index: usize,
    pub batched: bool,
    pub replica: Vector<Elem>,
    pub ended: bool,
    pub last: PollRes,
    pub epoch: u64,
    pub items: u64,
    /// Everything that flowed through, as plain data (raw tap and last tap only).
    pub record: bool,
    pub received: Vec<Vec<DiffD>>,
    /// C15: bound that must hold after every single diff.
    pub max_len: Option<usize>,
    pub raw: Option<RawInfo>,
    /// Properties of the stage(s) producing this boundary (empty for the raw tap).
    pub stage_props: Vec<&'static str>,
    /// If the next stage is a sort adapter: its comparison (known finding KF-D6 trigger).
    pub feeds_sort: Option<CmpKind>,
    pub prev: Option<Rc<RefCell<TapState>>>,
    /// The stage(s) producing this boundary, each with the tap on its limit stream (C13: after every
    /// emitted batch the view is the stage's view of its input for the limits it has pulled).
    pub group: Vec<(StageSpec, Option<Rc<RefCell<LimTapState>>>)>,
    /// Lengths this boundary had before each of its last three items: a stage that has pulled an
    /// item may not have processed it yet when it handles a limit change (known-finding triggers).
    pub recent_lens: Vec<usize>,
    /// Limit taps of the stage(s) reading from this boundary.
    pub consumer_lims: Vec<Rc<RefCell<LimTapState>>>,
    /// Batched taps: the replica after every item (index 0 = initial values).
    pub hist: Vec<Vec<V>>,
    /// C13: the minimal index tuples (input state, pulled limit of each stage of the group) whose
    /// view equalled the replica after the previous batch; the next batch must match a tuple that
    /// is componentwise not before one of them.
    pub frontier: Vec<Vec<usize>>,
}

impl TapState {
    pub fn new(index: usize, batched: bool, replica: Vector<Elem>) -> Self {
        let hist = if batched { vec![vs(&replica)] } else { Vec::new() };
        TapState {
            hist,
            recent_lens: Vec::new(),
            consumer_lims: Vec::new(),
            frontier: Vec::new(),
            index,
            batched,
            replica,
            ended: false,
            last: PollRes::NotPolled,
            epoch: 0,
            items: 0,
            record: false,
            received: Vec::new(),
            max_len: None,
            raw: None,
            stage_props: Vec::new(),
            feeds_sort: None,
            prev: None,
            group: Vec::new(),
        }
    }

    fn sp(&self) -> Vec<&'static str> {
        self.stage_props.clone()
    }

    fn on_item(&mut self, diffs: &[VectorDiff<Elem>], env: &Env, cs: &ConsumerShared) {
        self.items += 1;
        let stage = self.index as i32;
        if self.record {
            self.received.push(diffs.iter().map(to_diffd).collect());
        }
        if self.batched && diffs.is_empty() {
            let mut ps = vec!["C07", "C13"];
            ps.extend(self.sp());
            cs.violate(env, &ps, "empty_batch", stage, "an empty batch was delivered".into());
            return;
        }
        if self.ended {
            let mut ps = vec!["C08"];
            ps.extend(self.sp());
            cs.violate(env, &ps, "item_after_end", stage, "stream yielded an item after reporting its end".into());
            return;
        }
        self.recent_lens.push(self.replica.len());
        if self.recent_lens.len() > 3 {
            self.recent_lens.remove(0);
        }
        if self.raw.is_some() {
            self.on_raw_item(diffs, env, cs);
            if self.batched {
                self.hist.push(vs(&self.replica));
            }
        } else {
            self.on_stage_item(diffs, env, cs);
        }
    }

    fn on_raw_item(&mut self, diffs: &[VectorDiff<Elem>], env: &Env, cs: &ConsumerShared) {
        let is_reset = diffs.len() == 1 && matches!(diffs[0], VectorDiff::Reset { .. });
        let has_reset = diffs.iter().any(|d| matches!(d, VectorDiff::Reset { .. }));
        let mut w = env.borrow_mut();
        let raw = self.raw.as_mut().unwrap();
        // A batch that *begins* with a Reset and goes on with the diffs that follow it is accepted in
        // a poll during which the writer ran (F8): the library found the lag, read the newest state,
        // and drained what the writer sent after that — the batch as a whole is judged below.
        let reset_then_more = has_reset && !is_reset && w.poll_floor.is_some() && matches!(diffs[0], VectorDiff::Reset { .. }) && !diffs[1..].iter().any(|d| matches!(d, VectorDiff::Reset { .. }));
        if has_reset && !is_reset && !reset_then_more {
            drop(w);
            cs.violate(env, &["C06"], "reset_inside_batch", 0, "a Reset was delivered together with other diffs".into());
            return;
        }
        if reset_then_more {
            let values = match &diffs[0] {
                VectorDiff::Reset { values } => vs(values),
                _ => unreachable!(),
            };
            let f = w.poll_floor.unwrap_or(0);
            if !w.boundaries[f..].iter().any(|b| *b == values) {
                let detail = format!("Reset (first diff of a batch) carries {:?}, a state the vector did not have during this poll; it contains {:?}", values, w.contents);
                drop(w);
                cs.violate(env, &["C06", "C07"], "reset_not_current", 0, detail);
                return;
            }
            raw.saw_reset = true;
            w.counters.inc("fault.F1_overflow_reset_delivered");
            w.counters.inc("probe.reset_followed_by_diffs_in_one_batch");
            drop(w);
            for d in diffs {
                if let Err(e) = checked_apply(&mut self.replica, d) {
                    cs.violate(env, &["C06"], "inapplicable_diff", 0, e);
                    return;
                }
            }
            let w = env.borrow();
            let raw = self.raw.as_mut().unwrap();
            let r = vs(&self.replica);
            match (f..w.boundaries.len()).find(|&j| w.boundaries[j] == r) {
                Some(j) => raw.bidx = j,
                None => {
                    let detail = format!("after a batch (Reset followed by diffs) the replica is {:?}, a state the vector did not have during this poll", r);
                    drop(w);
                    cs.violate(env, &["C06", "C07", "C13"], "batched_intermediate_state", 0, detail);
                }
            }
            return;
        }
        if is_reset {
            raw.saw_reset = true;
            w.counters.inc("fault.F1_overflow_reset_delivered");
            if raw.just_finished_batch {
                // the overflow happened while this consumer was still yielding a multi-diff batch
                w.counters.inc("probe.lagged_while_yielding_a_batch");
            }
            raw.just_finished_batch = false;
            let values = match &diffs[0] {
                VectorDiff::Reset { values } => vs(values),
                _ => unreachable!(),
            };
            if w.auditor_on {
                let taken = raw.cursor + (raw.partial > 0) as usize;
                let pending = w.msgs.len() - taken;
                if pending <= w.capacity {
                    let detail = format!(
                        "Reset delivered with only {} update(s) pending for this subscriber (capacity {})",
                        pending, w.capacity
                    );
                    drop(w);
                    cs.violate(env, &["C06"], "reset_without_lag", 0, detail);
                    return;
                }
                raw.cursor = w.msgs.len();
                raw.partial = 0;
            }
            // (F8: if the writer ran during this poll, the Reset was current when the library read it)
            let current = values == w.contents || w.poll_floor.map_or(false, |f| w.boundaries[f..].iter().any(|b| *b == values));
            if !current {
                let detail = format!("Reset carries {:?} but the vector contains {:?}", values, w.contents);
                // after the drop this is also what the stream ends on (C08)
                let dropped = w.dropped;
                drop(w);
                if dropped {
                    cs.violate(env, &["C06", "C07", "C08"], "reset_not_current", 0, detail);
                } else {
                    cs.violate(env, &["C06", "C07"], "reset_not_current", 0, detail);
                }
                return;
            }
            raw.bidx = if values == w.contents {
                w.boundaries.len() - 1
            } else {
                let f = w.poll_floor.unwrap_or(0).max(raw.bidx);
                (f..w.boundaries.len()).find(|&j| w.boundaries[j] == values).unwrap_or(w.boundaries.len() - 1)
            };
            drop(w);
            if let Err(e) = checked_apply(&mut self.replica, &diffs[0]) {
                cs.violate(env, &["C06"], "inapplicable_diff", 0, e);
            }
            return;
        }
        // ordinary diffs
        for d in diffs {
            if w.auditor_on {
                let dd = to_diffd(d);
                let expected = w.msgs.get(raw.cursor).and_then(|m| m.diffs.get(raw.partial));
                if expected != Some(&dd) {
                    let detail = format!(
                        "subscriber received {:?} where a subscriber that is always up to date received {:?} (message {}, diff {})",
                        dd, expected, raw.cursor, raw.partial
                    );
                    drop(w);
                    cs.violate(env, &["C05"], "diff_depends_on_polling", 0, detail);
                    return;
                }
            }
            if let Err(e) = checked_apply(&mut self.replica, d) {
                drop(w);
                cs.violate(env, &["C05", "C06"], "inapplicable_diff", 0, e);
                return;
            }
            if w.auditor_on {
                raw.partial += 1;
                if raw.partial == w.msgs[raw.cursor].diffs.len() {
                    let want = &w.msgs[raw.cursor].state_after;
                    if !same(&self.replica, want) {
                        let detail = format!(
                            "after the diffs of update {} the replica is {:?} but the vector was {:?}",
                            raw.cursor,
                            vs(&self.replica),
                            want
                        );
                        drop(w);
                        cs.violate(env, &["C05", "C07"], "replay_mismatch_at_boundary", 0, detail);
                        return;
                    }
                    raw.just_finished_batch = !self.batched && w.msgs[raw.cursor].diffs.len() > 1;
                    raw.cursor += 1;
                    raw.partial = 0;
                } else {
                    raw.just_finished_batch = false;
                }
            }
        }
        if self.batched {
            // C07/C13: a state between top-level operations; C06: the latest one.
            let r = vs(&self.replica);
            let found = (raw.bidx..w.boundaries.len()).find(|&j| w.boundaries[j] == r);
            match found {
                None => {
                    let detail = format!(
                        "after a batch the replica is {:?}, a state the vector never had between top-level operations",
                        r
                    );
                    drop(w);
                    cs.violate(env, &["C07", "C13", "C05"], "batched_intermediate_state", 0, detail);
                    return;
                }
                Some(j) => {
                    raw.bidx = j;
                    let current = r == w.contents || w.poll_floor.map_or(false, |f| w.boundaries[f.max(j)..].iter().any(|b| *b == r));
                    if !current {
                        let detail = format!(
                            "a batched item left the replica at {:?} while the vector contains {:?}",
                            r, w.contents
                        );
                        drop(w);
                        cs.violate(env, &["C06"], "batched_not_up_to_date", 0, detail);
                        return;
                    }
                }
            }
            if w.auditor_on && (raw.partial != 0 || raw.cursor != w.msgs.len()) {
                let detail = format!(
                    "batched item ended at update {} diff {} of {} updates sent",
                    raw.cursor,
                    raw.partial,
                    w.msgs.len()
                );
                drop(w);
                cs.violate(env, &["C06", "C07"], "batched_not_up_to_date", 0, detail);
            }
        }
    }

    /// C13: a batch has just been applied to this boundary of a batched consumer. The rebuilt view
    /// must be the group's view of a state its input had at a batch boundary, for limits it has
    /// pulled — not necessarily the latest ones: an implementation may read ahead of what it has
    /// emitted. Candidates are all (input state, pulled limit per stage) index tuples that are
    /// componentwise not before a tuple that matched the previous batch; at quiescent points the
    /// view is compared with the latest input anyway (`check_views`).
    fn check_batch_view(&mut self, env: &Env, cs: &ConsumerShared) {
        let Some(prev) = &self.prev else { return };
        if !self.batched || self.group.is_empty() || cs.retire.get().is_some() {
            return;
        }
        let prev = prev.borrow();
        let got = vs(&self.replica);
        let lim_hists: Vec<Vec<Option<usize>>> = self.group.iter().map(|(_, lt)| lt.as_ref().map_or_else(|| vec![None], |l| l.borrow().pulled_hist.clone())).collect();
        let dims: Vec<usize> = std::iter::once(prev.hist.len()).chain(lim_hists.iter().map(|h| h.len())).collect();
        let nd = dims.len();
        if self.frontier.is_empty() {
            self.frontier = vec![vec![0; nd]];
        }
        let lo: Vec<usize> = (0..nd).map(|d| self.frontier.iter().map(|f| f[d]).min().unwrap()).collect();
        let total: usize = (0..nd).map(|d| dims[d] - lo[d]).product();
        if total > 4096 {
            env.borrow_mut().counters.inc("probe.batch_view_check_skipped");
            return;
        }
        let mut matching: Vec<Vec<usize>> = Vec::new();
        let mut t = lo.clone();
        'outer: loop {
            if self.frontier.iter().any(|f| (0..nd).all(|d| t[d] >= f[d])) {
                let stages: Vec<(StageSpec, Option<usize>)> = self.group.iter().enumerate().map(|(i, (s, _))| (*s, lim_hists[i][t[i + 1]])).collect();
                let want = super::view::group_view(&stages, &prev.hist[t[0]]);
                if super::view::matches(&want, &got).is_ok() {
                    matching.push(t.clone());
                }
            }
            // next tuple (last dimension fastest)
            let mut d = nd;
            loop {
                if d == 0 {
                    break 'outer;
                }
                d -= 1;
                t[d] += 1;
                if t[d] < dims[d] {
                    break;
                }
                t[d] = lo[d];
            }
        }
        if matching.is_empty() {
            let input = prev.hist.last().unwrap().clone();
            let stages: Vec<(StageSpec, Option<usize>)> = self.group.iter().map(|(s, lt)| (*s, lt.as_ref().and_then(|l| l.borrow().pulled))).collect();
            let want = super::view::group_view(&stages, &input);
            let e = super::view::matches(&want, &got).err().unwrap_or_default();
            let mut ps = self.sp();
            ps.push("C13");
            cs.violate(
                env,
                &ps,
                "batch_leaves_inconsistent_view",
                self.index as i32,
                format!("after an emitted batch, stage {:?} over input {:?} with pulled limits {:?}: {} (and no match among the {} candidate input states / pulled limits since the previous batch either)", self.group.iter().map(|(s, _)| *s).collect::<Vec<_>>(), input, stages.iter().map(|(_, l)| *l).collect::<Vec<_>>(), e, total),
            );
            return;
        }
        if matching.len() > 1 || matching[0] != dims.iter().map(|d| d - 1).collect::<Vec<_>>() {
            env.borrow_mut().counters.inc("probe.batch_view_matched_earlier_or_ambiguous");
        }
        // keep the minimal elements
        let minimal: Vec<Vec<usize>> = matching.iter().filter(|m| !matching.iter().any(|o| o != *m && (0..nd).all(|d| o[d] <= m[d]))).cloned().collect();
        self.frontier = minimal;
    }

    fn on_stage_item(&mut self, diffs: &[VectorDiff<Elem>], env: &Env, cs: &ConsumerShared) {
        let stage = self.index as i32;
        for (i, d) in diffs.iter().enumerate() {
            if let Err(e) = checked_apply(&mut self.replica, d) {
                let mut ps = self.sp();
                let mut detail = format!("{e} (diff {:?})", to_diffd(d));
                // C15: `VectorDiff::apply` ignores a pop from an empty vector, so a consumer that
                // rebuilds the view with it goes on; does the bound break right behind the
                // useless pop ("room is made before an item enters" made no room)?
                if let Some(m) = self.max_len {
                    let mut scratch = self.replica.clone();
                    for d2 in &diffs[i..] {
                        let pop_on_empty = scratch.is_empty() && matches!(d2, VectorDiff::PopBack | VectorDiff::PopFront);
                        if !pop_on_empty && checked_apply(&mut scratch, d2).is_err() {
                            break;
                        }
                        if scratch.len() > m {
                            ps.push("C15");
                            detail.push_str(&format!("; and applied with VectorDiff::apply the view then has {} items after {:?}, fixed limit is {m}", scratch.len(), to_diffd(d2)));
                            break;
                        }
                    }
                }
                cs.violate(env, &ps, "inapplicable_diff", stage, detail);
                return;
            }
            if let Some(m) = self.max_len {
                if self.replica.len() > m {
                    let detail = format!(
                        "view has {} items after {:?}, fixed limit is {}",
                        self.replica.len(),
                        to_diffd(d),
                        m
                    );
                    cs.violate(env, &["C15"], "limit_exceeded_between_diffs", stage, detail);
                    return;
                }
            }
        }
        if self.batched {
            self.hist.push(vs(&self.replica));
        }
        self.check_batch_view(env, cs);
    }

    fn on_end(&mut self, env: &Env, cs: &ConsumerShared) {
        let stage = self.index as i32;
        if self.ended {
            return;
        }
        self.ended = true;
        for lt in &self.consumer_lims {
            lt.borrow_mut().input_ended = true;
        }
        if let Some(raw) = &self.raw {
            let w = env.borrow();
            if !w.dropped {
                drop(w);
                cs.violate(env, &["C08"], "ended_while_vector_alive", 0, "stream ended while the ObservableVector is alive".into());
                return;
            }
            if !same(&self.replica, &w.contents) {
                let detail = format!(
                    "stream ended with the replica at {:?} but the vector's final contents were {:?} (lagged before: {})",
                    vs(&self.replica),
                    w.contents,
                    raw.saw_reset
                );
                // C07: was a committed transaction among what this subscriber never got?
                let lost_commit = (self.batched && w.commit_bidx.iter().any(|&j| j > raw.bidx))
                    || (w.auditor_on && w.msgs[raw.cursor.min(w.msgs.len())..].iter().any(|m| m.commit));
                drop(w);
                if lost_commit {
                    cs.violate(env, &["C08", "C06", "C07"], "ended_on_stale_state", 0, format!("{detail}; a committed transaction is among the updates never delivered"));
                } else {
                    cs.violate(env, &["C08", "C06"], "ended_on_stale_state", 0, detail);
                }
            }
        } else if let Some(prev) = &self.prev {
            if !prev.borrow().ended {
                let ps = self.sp();
                cs.violate(env, &ps, "adapter_ended_before_source", stage, "adapter stream ended although its source stream has not".into());
            }
        }
    }
}

/// KF-D6 trigger (known finding): a sort stage pulls `Truncate{n}` from an input whose kept part is
/// not strictly below the removed part under the stage's comparison — the adapter forwards the
/// truncate to the sorted view, which is only right when the removed items are the greatest ones.
fn kf_d6_trigger(replica: &Vector<Elem>, n: usize, cmp: CmpKind) -> bool {
    if n == 0 || n >= replica.len() {
        return false;
    }
    let all = vs(replica);
    let (kept, removed) = all.split_at(n);
    kept.iter().any(|k| removed.iter().any(|r| cmp.cmp(k, r) != std::cmp::Ordering::Less))
}

pub struct Tap<I: DiffItem> {
    pub inner: BoxS<I>,
    pub st: Rc<RefCell<TapState>>,
    pub env: Env,
    pub cs: Rc<ConsumerShared>,
}

impl<I: DiffItem> Stream for Tap<I> {
    type Item = I;
    fn poll_next(self: Pin<&mut Self>, cx: &mut Context<'_>) -> Poll<Option<I>> {
        let this = self.get_mut();
        let r = this.inner.as_mut().poll_next(cx);
        let epoch = this.env.borrow().epoch;
        let mut st = this.st.borrow_mut();
        st.epoch = epoch;
        match &r {
            Poll::Pending => st.last = PollRes::Pending,
            Poll::Ready(None) => {
                st.last = PollRes::End;
                st.on_end(&this.env, &this.cs);
            }
            Poll::Ready(Some(item)) => {
                st.last = PollRes::Item;
                if let Some(cmp) = st.feeds_sort {
                    if this.env.borrow().kf_retire
                        && item.diffs().iter().any(|d| matches!(d, VectorDiff::Truncate { .. }))
                    {
                        // evaluated on the input only: the input replica just before each Truncate
                        let mut scratch = st.replica.clone();
                        for d in item.diffs() {
                            if let VectorDiff::Truncate { length } = d {
                                if kf_d6_trigger(&scratch, *length, cmp) {
                                    this.cs.retire.set(Some("KF-D6"));
                                }
                            }
                            if super::view::applicable(d, scratch.len()).is_ok() {
                                d.clone().apply(&mut scratch);
                            }
                        }
                    }
                }
                st.on_item(item.diffs(), &this.env, &this.cs);
            }
        }
        r
    }
}

pub fn feeds_sort_of(next: Option<&StageSpec>) -> Option<CmpKind> {
    next.and_then(sort_kind)
}

// ---------------------------------------------------------------------------------------------
// limit streams

#[derive(Default)]
pub struct Script {
    pub queue: VecDeque<usize>,
    pub closed: bool,
    pub waker: Option<Waker>,
}

pub struct ScriptStream(pub Rc<RefCell<Script>>);

impl Stream for ScriptStream {
    type Item = usize;
    fn poll_next(self: Pin<&mut Self>, cx: &mut Context<'_>) -> Poll<Option<usize>> {
        let mut s = self.0.borrow_mut();
        if let Some(v) = s.queue.pop_front() {
            Poll::Ready(Some(v))
        } else if s.closed {
            Poll::Ready(None)
        } else {
            s.waker = Some(cx.waker().clone());
            Poll::Pending
        }
    }
}

pub struct LimTapState {
    pub pulled: Option<usize>,
    /// Limit the stage starts with (0 for purely dynamic stages).
    pub base: usize,
    pub last: PollRes,
    pub epoch: u64,
    pub is_tail: bool,
    /// the stream the stage reads from has ended: whether a limit announced from now on still
    /// reaches the stage's view is the implementation's business (this library polls the limit
    /// first and then discovers the end; a stage that reads ahead has ended polls earlier)
    pub input_ended: bool,
    /// limits the stage may still have in effect: the one in effect when the current poll of the
    /// consumer began plus every value pulled since (an adapter may fold several ready values
    /// into one update, skipping the intermediate ones)
    pub in_effect: Vec<usize>,
    pub in_effect_epoch: u64,
    /// every value of `pulled` so far (index 0 = nothing pulled yet)
    pub pulled_hist: Vec<Option<usize>>,
}

pub struct LimitTap {
    pub inner: BoxL,
    pub st: Rc<RefCell<LimTapState>>,
    pub input: Rc<RefCell<TapState>>,
    /// second stage of a fused pair: its real input is the first stage's view of `input`
    /// (first stage and the limit tap that tells which limit it has pulled)
    pub upstream: Option<(StageSpec, Rc<RefCell<LimTapState>>)>,
    pub env: Env,
    pub cs: Rc<ConsumerShared>,
}

impl Stream for LimitTap {
    type Item = usize;
    fn poll_next(self: Pin<&mut Self>, cx: &mut Context<'_>) -> Poll<Option<usize>> {
        let this = self.get_mut();
        let r = this.inner.as_mut().poll_next(cx);
        let mut st = this.st.borrow_mut();
        st.epoch = this.env.borrow().epoch;
        if st.in_effect_epoch != st.epoch {
            st.in_effect_epoch = st.epoch;
            let cur = st.pulled.unwrap_or(st.base);
            st.in_effect = vec![cur];
        }
        match &r {
            Poll::Pending => st.last = PollRes::Pending,
            Poll::Ready(None) => st.last = PollRes::End,
            Poll::Ready(Some(new)) => {
                st.last = PollRes::Item;
                let old = st.pulled.unwrap_or(st.base);
                // KF-D5 trigger (known finding): Tail pulls a smaller limit while its old limit
                // exceeds the length of its input — it pops `old - new` items instead of `len - new`.
                if st.is_tail && this.env.borrow().kf_retire {
                    let len = match &this.upstream {
                        None => this.input.borrow().replica.len(),
                        Some((spec, lt)) => {
                            let input = vs(&this.input.borrow().replica);
                            match super::view::stage_view(spec, &input, lt.borrow().pulled) {
                                super::view::Expect::Exact(v) => v.len(),
                                super::view::Expect::Sorted { items, .. } => items.len(),
                            }
                        }
                    };
                    let _ = old;
                    // (the stage may not yet have processed the last items it pulled from its input)
                    let mut lens = vec![len];
                    if this.upstream.is_none() {
                        lens.extend(this.input.borrow().recent_lens.iter().copied());
                    }
                    if *new > 0 && lens.iter().any(|&len| len > *new && st.in_effect.iter().any(|&o| o > len)) {
                        this.cs.retire.set(Some("KF-D5"));
                    }
                }
                st.in_effect.push(*new);
                st.pulled = Some(*new);
                st.pulled_hist.push(Some(*new));
                let mut w = this.env.borrow_mut();
                w.counters.inc("probe.limit_pulled");
                if *new > this.input.borrow().replica.len() {
                    w.counters.inc("probe.limit_beyond_len");
                }
            }
        }
        r
    }
}

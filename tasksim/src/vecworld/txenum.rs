//! C07 as fault enumeration over crash points: for a sampled history containing one transaction,
//! EVERY abandonment point of its body is executed — drop after each prefix, rollback-then-drop
//! after each prefix, rollback-then-continue-and-commit after each prefix, and the plain commit —
//! and each abandoned variant is compared with its twin: the same history in which the abandoned
//! operations were never issued (final contents and everything every subscriber received).

use super::exec::run_case;
use super::gen::gen_case;
use super::steps::*;
use crate::common::{props, Counters, Outcome, Violation};
use crate::rng::{Fingerprint, Rng};
use crate::runner::Check;

pub struct TxEnumCheck;

/// Split the case at its first transaction: (prefix, body units, suffix). A unit is one transaction
/// operation or a whole traversal; consumer / limit steps between units stay attached to the unit
/// they precede. None if there is no transaction with a non-empty body.
fn split(case: &Case) -> Option<(Vec<Step>, Vec<Vec<Step>>, Vec<Step>)> {
    let s = &case.steps;
    let begin = s.iter().position(|x| matches!(x, Step::TxBegin))?;
    let mut units: Vec<Vec<Step>> = Vec::new();
    let mut cur: Vec<Step> = Vec::new();
    let mut i = begin + 1;
    let mut in_trav = false;
    let mut end = s.len();
    while i < s.len() {
        let st = &s[i];
        match st {
            Step::TxCommit | Step::TxDrop if !in_trav => {
                end = i + 1;
                break;
            }
            Step::TxRollback | Step::TxBegin | Step::Subscribe(_) | Step::DropVector => {}
            Step::TravBegin { .. } => {
                in_trav = true;
                cur.push(st.clone());
            }
            Step::TravEnd => {
                if in_trav {
                    cur.push(st.clone());
                    units.push(std::mem::take(&mut cur));
                    in_trav = false;
                }
            }
            x if x.is_trav_decision() => {
                if in_trav {
                    cur.push(st.clone());
                }
            }
            x if x.is_writer_op() => {
                if in_trav {
                    // not executed during a traversal anyway
                } else {
                    cur.push(st.clone());
                    units.push(std::mem::take(&mut cur));
                }
            }
            _ => cur.push(st.clone()),
        }
        i += 1;
        if i == s.len() {
            end = s.len();
        }
    }
    if in_trav {
        cur.push(Step::TravEnd);
        units.push(std::mem::take(&mut cur));
    }
    // trailing consumer steps inside the transaction stay before the terminator
    let tail = cur;
    if units.is_empty() {
        return None;
    }
    if !tail.is_empty() {
        units.last_mut().unwrap().extend(tail);
    }
    Some((s[..begin].to_vec(), units, s[end.min(s.len())..].to_vec()))
}

fn aux_only(unit: &[Step]) -> Vec<Step> {
    // the steps of a unit that are not transaction operations (consumer polls, limit changes)
    let mut out = Vec::new();
    let mut in_trav = false;
    for s in unit {
        match s {
            Step::TravBegin { .. } => in_trav = true,
            Step::TravEnd => in_trav = false,
            x if x.is_trav_decision() || x.is_writer_op() => {}
            x => {
                let _ = in_trav;
                out.push(x.clone());
            }
        }
    }
    out
}

fn assemble(cfg: &Config, parts: Vec<Vec<Step>>) -> Case {
    Case { config: cfg.clone(), steps: parts.into_iter().flatten().collect() }
}

impl Check for TxEnumCheck {
    type Case = Case;
    fn prop(&self) -> &str {
        "C07"
    }
    fn world(&self) -> &'static str {
        "vector-tx-enumeration"
    }
    fn domain(&self) -> u64 {
        1907
    }
    fn gen(&self, rng: &mut Rng) -> Case {
        // sample until the history contains a transaction with a body (bounded)
        for _ in 0..20 {
            let c = gen_case("C07", rng);
            // (outsized histories are left to the sampling family: every variant re-runs the whole history)
            if c.steps.len() <= 60 && split(&c).is_some() {
                return c;
            }
        }
        gen_case("C07", rng)
    }
    fn exec(&self, case: &Case) -> Outcome {
        let mut counters = Counters::default();
        let mut fp = Fingerprint::default();
        let mut steps = 0u64;
        let Some((prefix, units, suffix)) = split(case) else {
            return Outcome { violation: None, counters, fingerprint: 0, steps: 0, nontrivial: false };
        };
        let k = units.len();
        let cfg = &case.config;
        let flat = |u: &[Vec<Step>]| -> Vec<Step> { u.iter().flatten().cloned().collect() };
        let aux = |u: &[Vec<Step>]| -> Vec<Step> { u.iter().flat_map(|x| aux_only(x)).collect() };
        // (name, variant, twin)
        let mut variants: Vec<(String, Case, Option<Case>)> = Vec::new();
        variants.push(("commit".into(), assemble(cfg, vec![prefix.clone(), vec![Step::TxBegin], flat(&units), vec![Step::TxCommit], suffix.clone()]), None));
        // every abandonment point of bodies of up to 24 units; of longer ones (outsized runs) the
        // first nine, the last nine and eight evenly spaced ones in between
        let points: Vec<usize> = if k <= 24 { (0..=k).collect() } else { (0..=k).filter(|&i| i <= 8 || i + 8 >= k || (i - 8) % ((k - 16) / 8).max(1) == 0).collect() };
        for i in points.iter().copied() {
            let twin_abandon = assemble(cfg, vec![prefix.clone(), aux(&units[..i]), suffix.clone()]);
            variants.push((format!("drop after {i} of {k} operations"), assemble(cfg, vec![prefix.clone(), vec![Step::TxBegin], flat(&units[..i]), vec![Step::TxDrop], suffix.clone()]), Some(twin_abandon.clone())));
            variants.push((
                format!("rollback after {i} of {k} operations, then drop"),
                assemble(cfg, vec![prefix.clone(), vec![Step::TxBegin], flat(&units[..i]), vec![Step::TxRollback, Step::TxDrop], suffix.clone()]),
                Some(twin_abandon),
            ));
            variants.push((
                format!("rollback after {i} of {k} operations, then continue and commit"),
                assemble(cfg, vec![prefix.clone(), vec![Step::TxBegin], flat(&units[..i]), vec![Step::TxRollback], flat(&units[i..]), vec![Step::TxCommit], suffix.clone()]),
                Some(assemble(cfg, vec![prefix.clone(), vec![Step::TxBegin], aux(&units[..i]), flat(&units[i..]), vec![Step::TxCommit], suffix.clone()])),
            ));
        }
        counters.add("enum.crash_points", points.len() as u64);
        let mut violation = None;
        for (name, v, twin) in variants {
            let r = run_case(&v);
            steps += r.outcome.steps;
            counters.inc("enum.variants_run");
            counters.merge(&r.outcome.counters);
            fp.add(r.outcome.fingerprint);
            if let Some(mut w) = r.outcome.violation {
                w.detail = format!("[variant: {name}] {}", w.detail);
                violation = Some(w);
                break;
            }
            if let Some(t) = twin {
                let rt = run_case(&t);
                steps += rt.outcome.steps;
                counters.inc("enum.twins_run");
                if rt.outcome.violation.is_some() {
                    // the twin's own violation is reported by the variant that equals it
                    continue;
                }
                if r.final_contents != rt.final_contents {
                    violation = Some(Violation { props: props(&["C07"]), oracle: "abandoned_tx_changed_contents".into(), stage: -1, step: 0, detail: format!("[variant: {name}] final contents {:?}, but {:?} when the abandoned operations are never issued", r.final_contents, rt.final_contents) });
                    break;
                }
                if r.raw_received != rt.raw_received {
                    let j = (0..r.raw_received.len().max(rt.raw_received.len())).find(|&j| r.raw_received.get(j) != rt.raw_received.get(j)).unwrap_or(0);
                    violation = Some(Violation { props: props(&["C07"]), oracle: "abandoned_tx_visible_to_subscriber".into(), stage: -1, step: 0, detail: format!("[variant: {name}] subscriber {j} received {:?}, but {:?} when the abandoned operations are never issued", r.raw_received.get(j), rt.raw_received.get(j)) });
                    break;
                }
            }
        }
        Outcome { violation, counters, fingerprint: fp.0, steps, nontrivial: k >= 2 }
    }
    fn len(&self, case: &Case) -> usize {
        case.steps.len()
    }
    fn remove_range(&self, case: &Case, from: usize, to: usize) -> Case {
        let mut c = case.clone();
        c.steps.drain(from..to);
        c
    }
    fn simplifications(&self, case: &Case) -> Vec<Case> {
        super::check::VecCheck { prop: "C07".into(), kf_retire: true }.simplifications(case)
    }
}

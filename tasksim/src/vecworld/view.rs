//! Reference view functions (DESIGN.md §4.3) over plain data, and the checked diff application.

use super::steps::{DiffD, StageSpec};
use crate::track::{Elem, V};
use eyeball_im::VectorDiff;
use imbl::Vector;
use std::cmp::Ordering;

pub fn keep(mask: u8, key: u8) -> bool {
    (mask >> (key & 3)) & 1 == 1
}
pub fn map_v(v: V) -> V {
    V(v.0 ^ 4, v.1)
}

#[derive(Clone, Copy, Debug)]
pub enum CmpKind {
    Ord,
    ByKey,
    ByKeyRev,
}

impl CmpKind {
    pub fn cmp(&self, a: &V, b: &V) -> Ordering {
        match self {
            CmpKind::Ord => (a.0, a.1).cmp(&(b.0, b.1)),
            CmpKind::ByKey => a.0.cmp(&b.0),
            CmpKind::ByKeyRev => b.0.cmp(&a.0),
        }
    }
}

pub fn sort_kind(spec: &StageSpec) -> Option<CmpKind> {
    match spec {
        StageSpec::Sort => Some(CmpKind::Ord),
        StageSpec::SortBy => Some(CmpKind::ByKey),
        StageSpec::SortByKey => Some(CmpKind::ByKeyRev),
        _ => None,
    }
}

#[derive(Clone, Debug)]
pub enum Expect {
    /// The view must be exactly this sequence.
    Exact(Vec<V>),
    /// The view must be a permutation of `items` ordered by `cmp` (stability is not demanded).
    Sorted { items: Vec<V>, cmp: CmpKind },
}

/// View of one stage over `input`. `announced` is the latest limit/count announced to a dynamic
/// stage (None = nothing announced yet).
pub fn stage_view(spec: &StageSpec, input: &[V], announced: Option<usize>) -> Expect {
    use StageSpec::*;
    let n = input.len();
    let head = |l: usize| Expect::Exact(input[..l.min(n)].to_vec());
    let tail = |l: usize| Expect::Exact(input[n - l.min(n)..].to_vec());
    let skip = |c: usize| Expect::Exact(input[c.min(n)..].to_vec());
    match *spec {
        Head(l) => head(l),
        Tail(l) => tail(l),
        Skip(c) => skip(c),
        DynHead(_) | ObsDynHead(_) => head(announced.unwrap_or(0)),
        DynTail(_) | ObsDynTail(_) => tail(announced.unwrap_or(0)),
        DynSkip(_) | ObsDynSkip(_) => match announced {
            Some(c) => skip(c),
            None => Expect::Exact(Vec::new()),
        },
        DynHeadInit(i, _) | ObsDynHeadInit(i, _) => head(announced.unwrap_or(i)),
        DynTailInit(i, _) | ObsDynTailInit(i, _) => tail(announced.unwrap_or(i)),
        DynSkipInit(i, _) | ObsDynSkipInit(i, _) => skip(announced.unwrap_or(i)),
        Filter(m) => Expect::Exact(input.iter().copied().filter(|v| keep(m, v.0)).collect()),
        FilterMap(m) => Expect::Exact(input.iter().copied().filter(|v| keep(m, v.0)).map(map_v).collect()),
        Sort => Expect::Sorted { items: input.to_vec(), cmp: CmpKind::Ord },
        SortBy => Expect::Sorted { items: input.to_vec(), cmp: CmpKind::ByKey },
        SortByKey => Expect::Sorted { items: input.to_vec(), cmp: CmpKind::ByKeyRev },
    }
}

/// View of a group of one or two fused stages.
pub fn group_view(stages: &[(StageSpec, Option<usize>)], input: &[V]) -> Expect {
    let mut cur = input.to_vec();
    let mut last = Expect::Exact(cur.clone());
    for (i, (spec, ann)) in stages.iter().enumerate() {
        last = stage_view(spec, &cur, *ann);
        if i + 1 < stages.len() {
            match &last {
                Expect::Exact(v) => cur = v.clone(),
                // a sort stage is never the first of a fused pair
                Expect::Sorted { items, .. } => cur = items.clone(),
            }
        }
    }
    last
}

pub fn matches(expect: &Expect, got: &[V]) -> Result<(), String> {
    match expect {
        Expect::Exact(e) => {
            if e.as_slice() == got {
                Ok(())
            } else {
                Err(format!("expected {:?}, got {:?}", e, got))
            }
        }
        Expect::Sorted { items, cmp } => {
            let mut a = items.clone();
            let mut b = got.to_vec();
            a.sort();
            b.sort();
            if a != b {
                return Err(format!("not a permutation of the source: source items {:?}, view {:?}", items, got));
            }
            for w in got.windows(2) {
                if cmp.cmp(&w[0], &w[1]) == Ordering::Greater {
                    return Err(format!("view not ordered by {:?}: {:?}", cmp, got));
                }
            }
            Ok(())
        }
    }
}

pub fn vs(replica: &Vector<Elem>) -> Vec<V> {
    replica.iter().map(|e| e.v()).collect()
}

pub fn same(replica: &Vector<Elem>, want: &[V]) -> bool {
    replica.len() == want.len() && replica.iter().zip(want).all(|(e, v)| e.v() == *v)
}

pub fn to_diffd(d: &VectorDiff<Elem>) -> DiffD {
    match d {
        VectorDiff::Append { values } => DiffD::Append(values.iter().map(|e| e.v()).collect()),
        VectorDiff::Clear => DiffD::Clear,
        VectorDiff::PushFront { value } => DiffD::PushFront(value.v()),
        VectorDiff::PushBack { value } => DiffD::PushBack(value.v()),
        VectorDiff::PopFront => DiffD::PopFront,
        VectorDiff::PopBack => DiffD::PopBack,
        VectorDiff::Insert { index, value } => DiffD::Insert(*index, value.v()),
        VectorDiff::Set { index, value } => DiffD::Set(*index, value.v()),
        VectorDiff::Remove { index } => DiffD::Remove(*index),
        VectorDiff::Truncate { length } => DiffD::Truncate(*length),
        VectorDiff::Reset { values } => DiffD::Reset(values.iter().map(|e| e.v()).collect()),
    }
}

/// Is `diff` applicable to a vector of length `len`? (index out of range, pop from empty)
pub fn applicable(diff: &VectorDiff<Elem>, len: usize) -> Result<(), String> {
    match diff {
        VectorDiff::PopFront | VectorDiff::PopBack if len == 0 => Err("pop from an empty replica".into()),
        VectorDiff::Insert { index, .. } if *index > len => {
            Err(format!("insert at index {index} into a replica of length {len}"))
        }
        VectorDiff::Set { index, .. } if *index >= len => Err(format!("set at index {index} in a replica of length {len}")),
        VectorDiff::Remove { index } if *index >= len => {
            Err(format!("remove at index {index} from a replica of length {len}"))
        }
        _ => Ok(()),
    }
}

/// Apply through the real `VectorDiff::apply` after checking applicability.
pub fn checked_apply(replica: &mut Vector<Elem>, diff: &VectorDiff<Elem>) -> Result<(), String> {
    applicable(diff, replica.len())?;
    diff.clone().apply(replica);
    Ok(())
}

#[cfg(test)]
mod tests {
    use super::*;
    use crate::vecworld::steps::{LimKind, LimSpec};

    fn v(k: u8, u: u16) -> V {
        V(k, u)
    }
    fn lim() -> LimSpec {
        LimSpec { kind: LimKind::Scripted, initial: 0, share: None }
    }

    #[test]
    fn head_tail_skip_views() {
        let src = [v(0, 1), v(1, 2), v(2, 3)];
        assert!(matches(&stage_view(&StageSpec::Head(2), &src, None), &[v(0, 1), v(1, 2)]).is_ok());
        assert!(matches(&stage_view(&StageSpec::Head(9), &src, None), &src).is_ok());
        assert!(matches(&stage_view(&StageSpec::Tail(2), &src, None), &[v(1, 2), v(2, 3)]).is_ok());
        assert!(matches(&stage_view(&StageSpec::Tail(0), &src, None), &[]).is_ok());
        assert!(matches(&stage_view(&StageSpec::Skip(1), &src, None), &[v(1, 2), v(2, 3)]).is_ok());
        assert!(matches(&stage_view(&StageSpec::Skip(7), &src, None), &[]).is_ok());
        // a wrong view is rejected
        assert!(matches(&stage_view(&StageSpec::Tail(2), &src, None), &[v(0, 1), v(1, 2)]).is_err());
    }

    #[test]
    fn dynamic_views_before_and_after_the_first_announcement() {
        let src = [v(0, 1), v(1, 2), v(2, 3)];
        assert!(matches(&stage_view(&StageSpec::DynHead(lim()), &src, None), &[]).is_ok());
        assert!(matches(&stage_view(&StageSpec::DynSkip(lim()), &src, None), &[]).is_ok(), "no count yet: empty, not everything");
        assert!(matches(&stage_view(&StageSpec::DynSkip(lim()), &src, Some(0)), &src).is_ok());
        assert!(matches(&stage_view(&StageSpec::DynTailInit(1, lim()), &src, None), &[v(2, 3)]).is_ok());
        assert!(matches(&stage_view(&StageSpec::DynTailInit(1, lim()), &src, Some(2)), &[v(1, 2), v(2, 3)]).is_ok());
    }

    #[test]
    fn filter_and_sort_views() {
        let src = [v(2, 1), v(0, 2), v(2, 3), v(1, 4)];
        assert!(matches(&stage_view(&StageSpec::Filter(0b0101), &src, None), &[v(2, 1), v(0, 2), v(2, 3)]).is_ok());
        assert!(matches(&stage_view(&StageSpec::FilterMap(0b0001), &src, None), &[v(4, 2)]).is_ok());
        let sorted = stage_view(&StageSpec::SortBy, &src, None);
        // ties in either order are fine, a missing or foreign item or a wrong order is not
        assert!(matches(&sorted, &[v(0, 2), v(1, 4), v(2, 1), v(2, 3)]).is_ok());
        assert!(matches(&sorted, &[v(0, 2), v(1, 4), v(2, 3), v(2, 1)]).is_ok());
        assert!(matches(&sorted, &[v(1, 4), v(0, 2), v(2, 3), v(2, 1)]).is_err());
        assert!(matches(&sorted, &[v(0, 2), v(1, 4), v(2, 3)]).is_err());
        assert!(matches(&sorted, &[v(0, 2), v(1, 4), v(2, 3), v(2, 9)]).is_err());
        let rev = stage_view(&StageSpec::SortByKey, &src, None);
        assert!(matches(&rev, &[v(2, 3), v(2, 1), v(1, 4), v(0, 2)]).is_ok());
    }

    #[test]
    fn applicability() {
        let e = |k, u| crate::track::Elem::new(V(k, u));
        assert!(applicable(&VectorDiff::PopFront, 0).is_err());
        assert!(applicable(&VectorDiff::PopBack, 1).is_ok());
        assert!(applicable(&VectorDiff::Insert { index: 2, value: e(0, 1) }, 1).is_err());
        assert!(applicable(&VectorDiff::Insert { index: 1, value: e(0, 1) }, 1).is_ok());
        assert!(applicable(&VectorDiff::Set { index: 1, value: e(0, 1) }, 1).is_err());
        assert!(applicable(&VectorDiff::Remove { index: 0 }, 0).is_err());
        assert!(applicable(&VectorDiff::<crate::track::Elem>::Clear, 0).is_ok());
        assert!(applicable(&VectorDiff::<crate::track::Elem>::Truncate { length: 5 }, 1).is_ok());
    }
}

//! Flag wakers: the simulator is the executor, so a "wake" is nothing but a flag the scheduler reads.

use std::sync::atomic::{AtomicBool, AtomicU32, Ordering};
use std::sync::Arc;
use std::task::{Wake, Waker};

#[derive(Debug, Default)]
pub struct Flag {
    woken: AtomicBool,
    count: AtomicU32,
}

impl Flag {
    pub fn is_woken(&self) -> bool {
        self.woken.load(Ordering::SeqCst)
    }
    /// Re-arm a waker that is polled with again (an executor hands the same waker to every poll of
    /// a task).
    pub fn clear(&self) {
        self.woken.store(false, Ordering::SeqCst);
    }
    pub fn wake_count(&self) -> u32 {
        self.count.load(Ordering::SeqCst)
    }
}

impl Wake for Flag {
    fn wake(self: Arc<Self>) {
        self.wake_by_ref();
    }
    fn wake_by_ref(self: &Arc<Self>) {
        self.woken.store(true, Ordering::SeqCst);
        self.count.fetch_add(1, Ordering::SeqCst);
    }
}

/// A fresh waker and the flag it sets. Every poll issued by the simulator gets a new pair, so code
/// that only remembers the first waker it was given is exposed.
pub fn fresh() -> (Arc<Flag>, Waker) {
    let flag = Arc::new(Flag::default());
    let waker = Waker::from(flag.clone());
    (flag, waker)
}

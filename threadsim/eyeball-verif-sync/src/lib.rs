//! Scheduler-controlled drop-in for the parts of `std::sync` that eyeball's default lock flavour and
//! `readlock` use. `RwLock` and its guards are shuttle's (every acquire, try-acquire and release is a
//! scheduling point and blocked threads are known to the scheduler); `Arc`/`Weak` are std's, wrapped
//! so that there is a scheduling point *before* every reference-count operation.

pub use shuttle::sync::{RwLock, RwLockReadGuard, RwLockWriteGuard};
pub use std::sync::{LockResult, PoisonError, TryLockError, TryLockResult};
// Not used by the pinned eyeball; exported so that a changed eyeball that reaches for more of
// `crate::sync_impl` still builds under the simulator (all scheduler-controlled).
pub use shuttle::sync::{Barrier, Condvar, Mutex, MutexGuard, Once};
pub mod atomic {
    pub use shuttle::sync::atomic::*;
}
pub mod mpsc {
    pub use shuttle::sync::mpsc::*;
}

use std::fmt;
use std::ops::Deref;

thread_local! {
    static POINTS: std::cell::Cell<u64> = const { std::cell::Cell::new(0) };
}

/// Number of reference-count scheduling points passed on this OS thread (evidence).
pub fn points() -> u64 {
    POINTS.with(|p| p.get())
}

#[inline]
fn point() {
    // never switch while unwinding: a second panic inside a Drop would abort the process
    if std::thread::panicking() {
        return;
    }
    POINTS.with(|p| p.set(p.get() + 1));
    // sleep(0), not yield_now: a yield lowers the thread's priority under the PCT scheduler
    shuttle::thread::sleep(std::time::Duration::from_nanos(0));
}

pub struct Arc<T: ?Sized>(std::sync::Arc<T>);
pub struct Weak<T: ?Sized>(std::sync::Weak<T>);

impl<T> Arc<T> {
    pub fn new(v: T) -> Self {
        Arc(std::sync::Arc::new(v))
    }
    pub fn try_unwrap(this: Self) -> Result<T, Self> {
        point();
        let inner = take_inner(this);
        std::sync::Arc::try_unwrap(inner).map_err(Arc)
    }
    pub fn into_inner(this: Self) -> Option<T> {
        point();
        let inner = take_inner(this);
        std::sync::Arc::into_inner(inner)
    }
}

/// Move the std Arc out of the wrapper without running the wrapper's Drop (which would add a
/// second scheduling point for one reference-count operation).
fn take_inner<T: ?Sized>(this: Arc<T>) -> std::sync::Arc<T> {
    let this = std::mem::ManuallyDrop::new(this);
    // SAFETY: `this` is never used or dropped again.
    unsafe { std::ptr::read(&this.0) }
}

impl<T: ?Sized> Arc<T> {
    pub fn strong_count(this: &Self) -> usize {
        point();
        std::sync::Arc::strong_count(&this.0)
    }
    pub fn weak_count(this: &Self) -> usize {
        point();
        std::sync::Arc::weak_count(&this.0)
    }
    pub fn downgrade(this: &Self) -> Weak<T> {
        point();
        Weak(std::sync::Arc::downgrade(&this.0))
    }
    pub fn ptr_eq(this: &Self, other: &Self) -> bool {
        std::sync::Arc::ptr_eq(&this.0, &other.0)
    }
    pub fn get_mut(this: &mut Self) -> Option<&mut T> {
        point();
        std::sync::Arc::get_mut(&mut this.0)
    }
}

impl<T: ?Sized> Clone for Arc<T> {
    fn clone(&self) -> Self {
        point();
        Arc(self.0.clone())
    }
}

impl<T: ?Sized> Drop for Arc<T> {
    fn drop(&mut self) {
        point();
        // the inner std Arc is dropped right after this body
    }
}

impl<T: ?Sized> Deref for Arc<T> {
    type Target = T;
    fn deref(&self) -> &T {
        &self.0
    }
}

impl<T: ?Sized + fmt::Debug> fmt::Debug for Arc<T> {
    fn fmt(&self, f: &mut fmt::Formatter<'_>) -> fmt::Result {
        self.0.fmt(f)
    }
}

impl<T: Default> Default for Arc<T> {
    fn default() -> Self {
        Arc::new(T::default())
    }
}

impl<T> From<T> for Arc<T> {
    fn from(v: T) -> Self {
        Arc::new(v)
    }
}

impl<T> Weak<T> {
    pub fn new() -> Self {
        Weak(std::sync::Weak::new())
    }
}

impl<T: ?Sized> Weak<T> {
    pub fn upgrade(&self) -> Option<Arc<T>> {
        point();
        self.0.upgrade().map(Arc)
    }
    pub fn strong_count(&self) -> usize {
        point();
        self.0.strong_count()
    }
    pub fn weak_count(&self) -> usize {
        point();
        self.0.weak_count()
    }
}

impl<T: ?Sized> Clone for Weak<T> {
    fn clone(&self) -> Self {
        point();
        Weak(self.0.clone())
    }
}

impl<T: ?Sized> Drop for Weak<T> {
    fn drop(&mut self) {
        point();
    }
}

impl<T: ?Sized> fmt::Debug for Weak<T> {
    fn fmt(&self, f: &mut fmt::Formatter<'_>) -> fmt::Result {
        write!(f, "(Weak)")
    }
}

impl<T> Default for Weak<T> {
    fn default() -> Self {
        Weak::new()
    }
}

// ---- the rest of the commonly used std API, so that a changed eyeball keeps building ----

impl<T> Arc<T> {
    pub fn new_cyclic<F: FnOnce(&Weak<T>) -> T>(f: F) -> Self {
        Arc(std::sync::Arc::new_cyclic(|w| {
            let w2 = Weak(w.clone());
            let r = f(&w2);
            // release the temporary without a scheduling point (the allocation is under construction)
            let m = std::mem::ManuallyDrop::new(w2);
            // SAFETY: `m` is never used or dropped again.
            drop(unsafe { std::ptr::read(&m.0) });
            r
        }))
    }
    pub fn unwrap_or_clone(this: Self) -> T
    where
        T: Clone,
    {
        Arc::try_unwrap(this).unwrap_or_else(|a| (*a).clone())
    }
}

impl<T: ?Sized> Arc<T> {
    pub fn as_ptr(this: &Self) -> *const T {
        std::sync::Arc::as_ptr(&this.0)
    }
}

impl<T: Clone> Arc<T> {
    pub fn make_mut(this: &mut Self) -> &mut T {
        point();
        std::sync::Arc::make_mut(&mut this.0)
    }
}

impl<T: ?Sized + PartialEq> PartialEq for Arc<T> {
    fn eq(&self, other: &Self) -> bool {
        self.0 == other.0
    }
}
impl<T: ?Sized + Eq> Eq for Arc<T> {}
impl<T: ?Sized + std::hash::Hash> std::hash::Hash for Arc<T> {
    fn hash<H: std::hash::Hasher>(&self, state: &mut H) {
        self.0.hash(state)
    }
}
impl<T: ?Sized + fmt::Display> fmt::Display for Arc<T> {
    fn fmt(&self, f: &mut fmt::Formatter<'_>) -> fmt::Result {
        self.0.fmt(f)
    }
}
impl<T: ?Sized> AsRef<T> for Arc<T> {
    fn as_ref(&self) -> &T {
        &self.0
    }
}
impl<T: ?Sized> std::borrow::Borrow<T> for Arc<T> {
    fn borrow(&self) -> &T {
        &self.0
    }
}

impl<T: ?Sized> Weak<T> {
    pub fn ptr_eq(&self, other: &Self) -> bool {
        self.0.ptr_eq(&other.0)
    }
    pub fn as_ptr(&self) -> *const T {
        self.0.as_ptr()
    }
}

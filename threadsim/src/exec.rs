//! Executes one ThreadSim program inside a shuttle execution: real eyeball code (sync flavour,
//! compiled with `--cfg eyeball_verif`), real readlock (vendored, sync imports swapped), shuttle's
//! RwLock, std Arc/Weak with scheduling points. Every operation is recorded with invoke/return
//! stamps from a global sequence counter and the history is checked for linearizability.

use crate::lin::{check, Event, HOp, PollR, Res, Spec};
use crate::program::{upd, Op, Program, SENTINEL};
use eyeball::{Observable, ObservableWriteGuard, SharedObservable, Subscriber, WeakObservable};
use futures_core::Stream;
use std::pin::Pin;
use std::sync::atomic::{AtomicU64, AtomicUsize, Ordering};
use std::sync::{Arc, Mutex};
use std::task::{Context, Poll, Wake, Waker};

struct Noop;
impl Wake for Noop {
    fn wake(self: Arc<Self>) {}
}

/// The persistent waker of a simulated thread: unparks it.
struct ThreadWaker(shuttle::thread::Thread);
impl Wake for ThreadWaker {
    fn wake(self: Arc<Self>) {
        self.0.unpark();
    }
    fn wake_by_ref(self: &Arc<Self>) {
        self.0.unpark();
    }
}

fn poll_with(sub: &mut Subscriber<u64>, wk: &Waker) -> PollR {
    let mut cx = Context::from_waker(wk);
    match Pin::new(sub).poll_next(&mut cx) {
        Poll::Pending => PollR::Pending,
        Poll::Ready(None) => PollR::End,
        Poll::Ready(Some(v)) => PollR::Some(v),
    }
}

#[derive(Default)]
pub struct Shared {
    seq: AtomicU64,
    next_sub: AtomicUsize,
    next_drop: AtomicUsize,
    hist: Mutex<Vec<Event>>,
}

impl Shared {
    fn stamp(&self) -> u64 {
        self.seq.fetch_add(1, Ordering::SeqCst)
    }
    fn rec(&self, tid: usize, op: HOp, inv: u64, res: Res) {
        let ret = self.stamp();
        self.hist.lock().unwrap().push(Event { tid, op, inv, ret, res });
    }
    /// The drop of an owner handle: two specification steps sharing the call's interval.
    fn rec_drop(&self, tid: usize, inv: u64) {
        let ret = self.stamp();
        let k = self.next_drop.fetch_add(1, Ordering::SeqCst) as u32;
        let mut h = self.hist.lock().unwrap();
        h.push(Event { tid, op: HOp::Release(k), inv, ret, res: Res::Unit });
        h.push(Event { tid, op: HOp::Finish(k), inv, ret, res: Res::Unit });
    }
}

struct Handles {
    uniq: Option<Observable<u64>>,
    owners: Vec<SharedObservable<u64>>,
    weaks: Vec<WeakObservable<u64>>,
    subs: Vec<(usize, Subscriber<u64>)>,
}

fn poll_once(sub: &mut Subscriber<u64>) -> PollR {
    let wk = Waker::from(Arc::new(Noop));
    let mut cx = Context::from_waker(&wk);
    match Pin::new(sub).poll_next(&mut cx) {
        Poll::Pending => PollR::Pending,
        Poll::Ready(None) => PollR::End,
        Poll::Ready(Some(v)) => PollR::Some(v),
    }
}

pub const ORACLE: &str = "ORACLE";

fn run_thread(tid: usize, ops: &[Op], mut h: Handles, sh: &Shared, collect: bool) -> Handles {
    let own_waker: Waker = Waker::from(Arc::new(ThreadWaker(shuttle::thread::current())));
    for op in ops {
        let inv = sh.stamp();
        match op {
            Op::Set(v) => {
                if let Some(u) = h.uniq.as_mut() {
                    let p = Observable::set(u, *v);
                    sh.rec(tid, HOp::Set(*v), inv, Res::Val(p));
                } else if let Some(o) = h.owners.last() {
                    let p = o.set(*v);
                    sh.rec(tid, HOp::Set(*v), inv, Res::Val(p));
                }
            }
            Op::SetIfNotEq(v) => {
                if let Some(u) = h.uniq.as_mut() {
                    let p = Observable::set_if_not_eq(u, *v);
                    sh.rec(tid, HOp::SetIfNotEq(*v), inv, Res::Opt(p));
                } else if let Some(o) = h.owners.last() {
                    let p = o.set_if_not_eq(*v);
                    sh.rec(tid, HOp::SetIfNotEq(*v), inv, Res::Opt(p));
                }
            }
            Op::SetIfHashNotEq(v) => {
                if let Some(u) = h.uniq.as_mut() {
                    let p = Observable::set_if_hash_not_eq(u, *v);
                    sh.rec(tid, HOp::SetIfNotEq(*v), inv, Res::Opt(p));
                } else if let Some(o) = h.owners.last() {
                    let p = o.set_if_hash_not_eq(*v);
                    sh.rec(tid, HOp::SetIfNotEq(*v), inv, Res::Opt(p));
                }
            }
            Op::TryWriteRmw(t) => {
                if let Some(o) = h.owners.last() {
                    if let Ok(mut g) = o.try_write() {
                        let a = *g;
                        shuttle::thread::yield_now();
                        let p = ObservableWriteGuard::set(&mut g, upd(a, *t));
                        drop(g);
                        if a != p {
                            panic!("{ORACLE} guard_exclusion: a write guard (try_write) read {a} but its set returned {p} as the previous value");
                        }
                        sh.rec(tid, HOp::Rmw(*t), inv, Res::Val(a));
                    }
                }
            }
            Op::TryRead => {
                if let Some(o) = h.owners.last() {
                    if let Ok(g) = o.try_read() {
                        let a = *g;
                        shuttle::thread::yield_now();
                        let b = *g;
                        drop(g);
                        if a != b {
                            panic!("{ORACLE} guard_exclusion: the value changed from {a} to {b} while a read guard (try_read) was alive");
                        }
                        sh.rec(tid, HOp::Read, inv, Res::Val(a));
                    }
                }
            }
            Op::Take => {
                if let Some(u) = h.uniq.as_mut() {
                    let p = Observable::take(u);
                    sh.rec(tid, HOp::Take, inv, Res::Val(p));
                } else if let Some(o) = h.owners.last() {
                    let p = o.take();
                    sh.rec(tid, HOp::Take, inv, Res::Val(p));
                }
            }
            Op::Update(t) => {
                if let Some(u) = h.uniq.as_mut() {
                    Observable::update(u, |v| *v = upd(*v, *t));
                    sh.rec(tid, HOp::Update(*t), inv, Res::Unit);
                } else if let Some(o) = h.owners.last() {
                    o.update(|v| *v = upd(*v, *t));
                    sh.rec(tid, HOp::Update(*t), inv, Res::Unit);
                }
            }
            Op::UpdateIf(t, n) => {
                if let Some(u) = h.uniq.as_mut() {
                    Observable::update_if(u, |v| {
                        *v = upd(*v, *t);
                        *n
                    });
                    sh.rec(tid, HOp::UpdateIf(*t, *n), inv, Res::Unit);
                } else if let Some(o) = h.owners.last() {
                    o.update_if(|v| {
                        *v = upd(*v, *t);
                        *n
                    });
                    sh.rec(tid, HOp::UpdateIf(*t, *n), inv, Res::Unit);
                }
            }
            Op::Get => {
                if let Some(u) = h.uniq.as_ref() {
                    let v = **u;
                    sh.rec(tid, HOp::Read, inv, Res::Val(v));
                } else if let Some(o) = h.owners.last() {
                    let v = o.get();
                    sh.rec(tid, HOp::Read, inv, Res::Val(v));
                }
            }
            Op::ReadHold => {
                if let Some(o) = h.owners.last() {
                    let g = o.read();
                    let a = *g;
                    shuttle::thread::yield_now();
                    let b = *g;
                    drop(g);
                    if a != b {
                        panic!("{ORACLE} guard_exclusion: the value changed from {a} to {b} while a read guard was alive");
                    }
                    sh.rec(tid, HOp::Read, inv, Res::Val(a));
                }
            }
            Op::WriteRmw(t) => {
                if let Some(o) = h.owners.last() {
                    let mut g = o.write();
                    let a = *g;
                    shuttle::thread::yield_now();
                    // the write goes through one of the guard's notifying methods
                    let p = match *t % 3 {
                        0 => ObservableWriteGuard::set(&mut g, upd(a, *t)),
                        1 => {
                            let mut seen = 0;
                            ObservableWriteGuard::update(&mut g, |v| {
                                seen = *v;
                                *v = upd(*v, *t)
                            });
                            seen
                        }
                        _ => {
                            let mut seen = 0;
                            ObservableWriteGuard::update_if(&mut g, |v| {
                                seen = *v;
                                *v = upd(*v, *t);
                                true
                            });
                            seen
                        }
                    };
                    drop(g);
                    if a != p {
                        panic!("{ORACLE} guard_exclusion: a write guard read {a} but its write saw {p} as the previous value");
                    }
                    sh.rec(tid, HOp::Rmw(*t), inv, Res::Val(a));
                }
            }
            Op::CloneOwner => {
                if let Some(o) = h.owners.last() {
                    if h.owners.len() < 3 {
                        let c = o.clone();
                        h.owners.push(c);
                        sh.rec(tid, HOp::CloneOwner, inv, Res::Unit);
                    }
                }
            }
            Op::IntoShared => {
                if let Some(u) = h.uniq.take() {
                    h.owners.push(Observable::into_shared(u));
                }
            }
            Op::DropOwner => {
                if let Some(u) = h.uniq.take() {
                    drop(u);
                    sh.rec_drop(tid, inv);
                } else if let Some(o) = h.owners.pop() {
                    drop(o);
                    sh.rec_drop(tid, inv);
                }
            }
            Op::Downgrade => {
                if let Some(o) = h.owners.last() {
                    h.weaks.push(o.downgrade());
                }
            }
            Op::Upgrade { keep } => {
                if let Some(w) = h.weaks.last() {
                    let r = w.upgrade();
                    sh.rec(tid, HOp::Upgrade, inv, Res::Bool(r.is_some()));
                    if let Some(o) = r {
                        if *keep && h.owners.len() < 3 {
                            h.owners.push(o);
                        } else {
                            let inv2 = sh.stamp();
                            drop(o);
                            sh.rec_drop(tid, inv2);
                        }
                    }
                }
            }
            Op::WeakDrop => {
                h.weaks.pop();
            }
            Op::Subscribe { reset } => {
                if h.subs.len() < 2 {
                    let id = sh.next_sub.fetch_add(1, Ordering::SeqCst);
                    let s = if let Some(u) = h.uniq.as_ref() {
                        Some(if *reset { Observable::subscribe_reset(u) } else { Observable::subscribe(u) })
                    } else {
                        h.owners.last().map(|o| if *reset { o.subscribe_reset() } else { o.subscribe() })
                    };
                    if let Some(s) = s {
                        h.subs.push((id, s));
                        sh.rec(tid, HOp::Subscribe { id, reset: *reset }, inv, Res::Unit);
                    }
                }
            }
            Op::SubGet => {
                if let Some((_, s)) = h.subs.last() {
                    let v = s.get();
                    sh.rec(tid, HOp::Read, inv, Res::Val(v));
                }
            }
            Op::SubReadHold => {
                if let Some((_, s)) = h.subs.last() {
                    let g = s.read();
                    let a = *g;
                    shuttle::thread::yield_now();
                    let b = *g;
                    drop(g);
                    if a != b {
                        panic!("{ORACLE} guard_exclusion: the value changed from {a} to {b} while a subscriber's read guard was alive");
                    }
                    sh.rec(tid, HOp::Read, inv, Res::Val(a));
                }
            }
            Op::SubNextNow => {
                if let Some((id, s)) = h.subs.last_mut() {
                    let v = s.next_now();
                    sh.rec(tid, HOp::NextNow(*id), inv, Res::Val(v));
                }
            }
            Op::SubNextRefNow => {
                if let Some((id, s)) = h.subs.last_mut() {
                    let v = *s.next_ref_now();
                    sh.rec(tid, HOp::NextNow(*id), inv, Res::Val(v));
                }
            }
            Op::PollNextRef => {
                if let Some((id, s)) = h.subs.last_mut() {
                    let wk = Waker::from(Arc::new(Noop));
                    let mut cx = Context::from_waker(&wk);
                    let r = {
                        let mut fut = std::pin::pin!(s.next_ref());
                        match std::future::Future::poll(fut.as_mut(), &mut cx) {
                            Poll::Pending => PollR::Pending,
                            Poll::Ready(None) => PollR::End,
                            Poll::Ready(Some(g)) => PollR::Some(*g),
                        }
                    };
                    sh.rec(tid, HOp::Poll(*id), inv, Res::Poll(r));
                }
            }
            Op::SubReset => {
                if let Some((id, s)) = h.subs.last_mut() {
                    s.reset();
                    sh.rec(tid, HOp::SubReset(*id), inv, Res::Unit);
                }
            }
            Op::SubCloneReset => {
                if h.subs.len() < 2 {
                    if let Some((_, s)) = h.subs.last() {
                        let id = sh.next_sub.fetch_add(1, Ordering::SeqCst);
                        let c = s.clone_reset();
                        h.subs.push((id, c));
                        sh.rec(tid, HOp::Subscribe { id, reset: true }, inv, Res::Unit);
                    }
                }
            }
            Op::PollOnce => {
                if let Some((id, s)) = h.subs.last_mut() {
                    let r = poll_once(s);
                    sh.rec(tid, HOp::Poll(*id), inv, Res::Poll(r));
                }
            }
            Op::SubClone => {
                if h.subs.len() < 2 {
                    if let Some((from, s)) = h.subs.last() {
                        let id = sh.next_sub.fetch_add(1, Ordering::SeqCst);
                        let c = s.clone();
                        let from = *from;
                        h.subs.push((id, c));
                        sh.rec(tid, HOp::SubClone { from, id }, inv, Res::Unit);
                    }
                }
            }
            Op::SubDrop => {
                h.subs.pop();
            }
            Op::WaitThenNextNow => {
                if collect {
                    continue;
                }
                if h.subs.is_empty() {
                    continue;
                }
                // a thread that waits must not be an owner itself
                if let Some(u) = h.uniq.take() {
                    let i = sh.stamp();
                    drop(u);
                    sh.rec_drop(tid, i);
                }
                while let Some(o) = h.owners.pop() {
                    let i = sh.stamp();
                    drop(o);
                    sh.rec_drop(tid, i);
                }
                let (id, s) = h.subs.last_mut().unwrap();
                let i = sh.stamp();
                let r = poll_with(s, &own_waker);
                sh.rec(tid, HOp::Poll(*id), i, Res::Poll(r.clone()));
                if r == PollR::Pending {
                    // woken by the next update or by the close (or never: a lost wake-up)
                    shuttle::thread::park();
                }
                let i = sh.stamp();
                let v = s.next_now();
                sh.rec(tid, HOp::NextNow(*id), i, Res::Val(v));
            }
            Op::BlockUntilEndSame => {
                if collect {
                    continue;
                }
                if let Some(u) = h.uniq.take() {
                    let i = sh.stamp();
                    drop(u);
                    sh.rec_drop(tid, i);
                }
                while let Some(o) = h.owners.pop() {
                    let i = sh.stamp();
                    drop(o);
                    sh.rec_drop(tid, i);
                }
                for k in 0..h.subs.len() {
                    let mut i = sh.stamp();
                    loop {
                        let (id, s) = &mut h.subs[k];
                        match poll_with(s, &own_waker) {
                            PollR::Pending => shuttle::thread::park(),
                            PollR::Some(v) => {
                                sh.rec(tid, HOp::Next(*id), i, Res::Poll(PollR::Some(v)));
                                i = sh.stamp();
                            }
                            PollR::End => {
                                sh.rec(tid, HOp::Next(*id), i, Res::Poll(PollR::End));
                                break;
                            }
                        }
                    }
                }
            }
            Op::BlockUntilEnd => {
                if collect {
                    continue;
                }
                // give up every owner handle first, or this thread would wait for itself
                if let Some(u) = h.uniq.take() {
                    let i = sh.stamp();
                    drop(u);
                    sh.rec_drop(tid, i);
                }
                while let Some(o) = h.owners.pop() {
                    let i = sh.stamp();
                    drop(o);
                    sh.rec_drop(tid, i);
                }
                for k in 0..h.subs.len() {
                    loop {
                        let i = sh.stamp();
                        let (id, s) = &mut h.subs[k];
                        let r = shuttle::future::block_on(s.next());
                        match r {
                            Some(v) => sh.rec(tid, HOp::Next(*id), i, Res::Poll(PollR::Some(v))),
                            None => {
                                sh.rec(tid, HOp::Next(*id), i, Res::Poll(PollR::End));
                                break;
                            }
                        }
                    }
                }
            }
            Op::Yield => shuttle::thread::yield_now(),
        }
    }
    if !collect {
        // shape A: give up every owner at the end (recorded), subscribers and weak refs silently
        if let Some(u) = h.uniq.take() {
            let i = sh.stamp();
            drop(u);
            sh.rec_drop(tid, i);
        }
        while let Some(o) = h.owners.pop() {
            let i = sh.stamp();
            drop(o);
            sh.rec_drop(tid, i);
        }
    }
    h
}

/// Body of one shuttle execution. Panics (with an `ORACLE` prefix for oracle failures) on violation.
pub fn run_program(p: &Program) -> usize {
    if let Some(s) = &p.c14 {
        return run_c14(s);
    }
    let sh = Arc::new(Shared::default());
    let mut spec = Spec { value: p.initial, version: 1, owners: 0, closed: false, releasing: 0, observed: Vec::new() };
    // set-up by the main thread (not part of the concurrent history; reflected in the initial state)
    let mut uniq = if p.unique { Some(Observable::new(p.initial)) } else { None };
    let root = if p.unique { None } else { Some(SharedObservable::new(p.initial)) };
    let mut inits: Vec<Handles> = Vec::new();
    for (i, t) in p.threads.iter().enumerate() {
        let mut h = Handles { uniq: None, owners: Vec::new(), weaks: Vec::new(), subs: Vec::new() };
        if p.unique {
            if let Some(reset) = t.sub {
                if let Some(u) = uniq.as_ref() {
                    let id = sh.next_sub.fetch_add(1, Ordering::SeqCst);
                    h.subs.push((id, if reset { Observable::subscribe_reset(u) } else { Observable::subscribe(u) }));
                    spec.observed.push(if reset { 0 } else { 1 });
                }
            }
            if i == 0 {
                h.uniq = uniq.take();
                spec.owners += 1;
            }
        } else {
            let root = root.as_ref().unwrap();
            for _ in 0..t.owners {
                h.owners.push(root.clone());
                spec.owners += 1;
            }
            if t.weak {
                h.weaks.push(root.downgrade());
            }
            if let Some(reset) = t.sub {
                let id = sh.next_sub.fetch_add(1, Ordering::SeqCst);
                h.subs.push((id, if reset { root.subscribe_reset() } else { root.subscribe() }));
                spec.observed.push(if reset { 0 } else { 1 });
            }
        }
        inits.push(h);
    }
    // main keeps the root handle only in shape B
    let main_owner = if p.collect { root } else { drop(root); None };
    if main_owner.is_some() {
        spec.owners += 1;
    }
    if p.unique && p.threads.is_empty() {
        drop(uniq.take());
    }
    let mut joins = Vec::new();
    for (tid, h) in inits.into_iter().enumerate() {
        let ops = p.threads[tid].ops.clone();
        let sh2 = sh.clone();
        let collect = p.collect;
        joins.push(shuttle::thread::spawn(move || run_thread(tid, &ops, h, &sh2, collect)));
    }
    let mut returned: Vec<Handles> = Vec::new();
    for j in joins {
        match j.join() {
            Ok(h) => returned.push(h),
            Err(e) => std::panic::resume_unwind(e),
        }
    }
    let main_tid = p.threads.len();
    if let Some(owner) = main_owner {
        // sentinel protocol: every subscriber ends on the final value, then on None
        let mut subs: Vec<(usize, Subscriber<u64>)> = Vec::new();
        let mut owners: Vec<SharedObservable<u64>> = Vec::new();
        for h in returned.drain(..) {
            subs.extend(h.subs);
            owners.extend(h.owners);
        }
        for (id, s) in subs.iter_mut() {
            let i = sh.stamp();
            let r = poll_once(s);
            sh.rec(main_tid, HOp::Poll(*id), i, Res::Poll(r));
        }
        let i = sh.stamp();
        let prev = owner.set(SENTINEL);
        sh.rec(main_tid, HOp::Set(SENTINEL), i, Res::Val(prev));
        for (id, s) in subs.iter_mut() {
            let i = sh.stamp();
            let r = poll_once(s);
            sh.rec(main_tid, HOp::Poll(*id), i, Res::Poll(r));
        }
        owners.push(owner);
        for o in owners {
            let i = sh.stamp();
            drop(o);
            sh.rec_drop(main_tid, i);
        }
        for (id, s) in subs.iter_mut() {
            let i = sh.stamp();
            let r = poll_once(s);
            sh.rec(main_tid, HOp::Poll(*id), i, Res::Poll(r));
            let v = s.get();
            if v != SENTINEL {
                panic!("{ORACLE} final_value: after the end a subscriber's get() returned {v}, the last stored value is {SENTINEL}");
            }
        }
    }
    drop(returned);
    let hist = std::mem::take(&mut *sh.hist.lock().unwrap());
    if let Err(e) = check(&spec, &hist) {
        panic!("{ORACLE} not_linearizable: {e}");
    }
    hist.len()
}

// ------------------------------------------------------------------------------------------------
// family C14T: a dynamic Head / Tail / Skip adapter driven by a thread with a park / unpark waker,
// while another thread changes the limit observable

use crate::program::{C14Spec, LOp};
use eyeball_im::{ObservableVector, VectorDiff};
use eyeball_im_util::vector::{VectorObserverExt, VectorSubscriberExt};
use imbl::Vector;

type BatchStream = Pin<Box<dyn Stream<Item = Vec<VectorDiff<u64>>> + Send>>;

/// An unbatched stream seen as batches of one.
struct One<S>(Pin<Box<S>>);
impl<S: Stream<Item = VectorDiff<u64>>> Stream for One<S> {
    type Item = Vec<VectorDiff<u64>>;
    fn poll_next(mut self: Pin<&mut Self>, cx: &mut Context<'_>) -> Poll<Option<Self::Item>> {
        self.0.as_mut().poll_next(cx).map(|o| o.map(|d| vec![d]))
    }
}

macro_rules! c14_build {
    ($obs:expr, $s:expr, $lim:expr, $wrap:expr) => {{
        let obs = $obs;
        let lim = $lim;
        match ($s.kind, $s.with_initial) {
            (0, None) => (Vector::new(), $wrap(obs.dynamic_head(lim))),
            (0, Some(n)) => {
                let (v, st) = obs.dynamic_head_with_initial_value(n, lim);
                (v, $wrap(st))
            }
            (1, None) => (Vector::new(), $wrap(obs.dynamic_tail(lim))),
            (1, Some(n)) => {
                let (v, st) = obs.dynamic_tail_with_initial_value(n, lim);
                (v, $wrap(st))
            }
            (_, None) => (Vector::new(), $wrap(obs.dynamic_skip(lim))),
            (_, Some(n)) => {
                let (v, st) = obs.dynamic_skip_with_initial_count(n, lim);
                (v, $wrap(st))
            }
        }
    }};
}

fn boxed_batches<S: Stream<Item = Vec<VectorDiff<u64>>> + Send + 'static>(s: S) -> BatchStream {
    Box::pin(s)
}
fn boxed_singles<S: Stream<Item = VectorDiff<u64>> + Send + 'static>(s: S) -> BatchStream {
    Box::pin(One(Box::pin(s)))
}

fn c14_view(s: &C14Spec, limit: usize) -> Vec<u64> {
    let all: Vec<u64> = (1..=s.len as u64).collect();
    let l = limit.min(s.len);
    match s.kind {
        0 => all[..l].to_vec(),
        1 => all[s.len - l..].to_vec(),
        _ => all[l..].to_vec(),
    }
}

fn c14_checked_apply(view: &mut Vector<u64>, d: VectorDiff<u64>) {
    let len = view.len();
    let bad = match &d {
        VectorDiff::PopFront | VectorDiff::PopBack => len == 0,
        VectorDiff::Insert { index, .. } => *index > len,
        VectorDiff::Set { index, .. } | VectorDiff::Remove { index } => *index >= len,
        _ => false,
    };
    if bad {
        panic!("{ORACLE} inapplicable_diff: {:?} on a view of {} item(s)", d, len);
    }
    d.apply(view);
}

fn c14_limit_ops(limit: &SharedObservable<usize>, ops: &[LOp]) {
    for op in ops {
        match op {
            LOp::Set(v) => {
                limit.set(*v);
            }
            LOp::SetIfNotEq(v) => {
                limit.set_if_not_eq(*v);
            }
            LOp::GuardSet(v) => {
                let mut g = limit.write();
                ObservableWriteGuard::set(&mut g, *v);
                shuttle::thread::sleep(std::time::Duration::from_nanos(0));
                drop(g);
            }
            LOp::ReadHold => {
                let g = limit.read();
                let a = *g;
                shuttle::thread::sleep(std::time::Duration::from_nanos(0));
                let b = *g;
                drop(g);
                if a != b {
                    panic!("{ORACLE} read_guard_changed: the value under a read guard went from {a} to {b}");
                }
            }
            LOp::Yield => shuttle::thread::sleep(std::time::Duration::from_nanos(0)),
        }
    }
}

pub fn run_c14(s: &C14Spec) -> usize {
    let limit: SharedObservable<usize> = SharedObservable::new(s.first_limit);
    let mut ov: ObservableVector<u64> = ObservableVector::new();
    for i in 0..s.len {
        ov.push_back(i as u64 + 1);
    }
    let lim = if s.reset { limit.subscribe_reset() } else { limit.subscribe() };
    let (initial, mut stream): (Vector<u64>, BatchStream) =
        if s.batched { c14_build!(ov.subscribe().batched(), s, lim, boxed_batches) } else { c14_build!(ov.subscribe(), s, lim, boxed_singles) };
    let want = c14_view(s, s.final_limit);
    let polls = Arc::new(AtomicUsize::new(0));
    let spec = s.clone();
    let polls2 = polls.clone();
    // hand-shake so that the warm-up polls happen before the writer starts
    let warmed = Arc::new(shuttle::sync::Mutex::new(false));
    let warmed_cv = Arc::new(shuttle::sync::Condvar::new());
    let (w2, c2) = (warmed.clone(), warmed_cv.clone());
    let consumer = shuttle::thread::spawn(move || {
        let _keep_vector_alive = ov;
        let mut view = initial;
        let me = shuttle::thread::current();
        let persistent: Waker = Arc::new(ThreadWaker(me.clone())).into();
        let mut n = 0usize;
        let mut warm = spec.warmup_polls as usize;
        let mut released = false;
        loop {
            if warm == 0 && !released {
                *w2.lock().unwrap() = true;
                c2.notify_all();
                released = true;
            }
            let wk: Waker = if spec.same_waker { persistent.clone() } else { Arc::new(ThreadWaker(me.clone())).into() };
            let mut cx = Context::from_waker(&wk);
            n += 1;
            polls2.store(n, Ordering::SeqCst);
            if n > 10_000 {
                panic!("{ORACLE} livelock: the consumer has polled 10000 times");
            }
            match stream.as_mut().poll_next(&mut cx) {
                Poll::Ready(Some(batch)) => {
                    if batch.is_empty() {
                        panic!("{ORACLE} empty_batch: an empty batch was delivered");
                    }
                    for d in batch {
                        c14_checked_apply(&mut view, d);
                    }
                    warm = warm.saturating_sub(1);
                }
                Poll::Ready(None) => panic!("{ORACLE} ended_while_vector_alive: the adapter's stream ended although its source vector is alive"),
                Poll::Pending => {
                    if warm > 0 {
                        // nothing more to warm up with
                        warm = 0;
                        continue;
                    }
                    let got: Vec<u64> = view.iter().copied().collect();
                    if got == want {
                        break;
                    }
                    // C14: whatever makes a further poll productive wakes this waker; C09: at a
                    // quiescent point the view is the one for the latest limit announced. So from
                    // here either a wake-up comes or this thread stays parked for ever (deadlock).
                    shuttle::thread::park();
                }
            }
        }
    });
    {
        let mut g = warmed.lock().unwrap();
        while !*g {
            g = warmed_cv.wait(g).unwrap();
        }
    }
    let l2 = limit.clone();
    let wops = s.writer.clone();
    let writer = shuttle::thread::spawn(move || c14_limit_ops(&l2, &wops));
    let reader = if s.reader.is_empty() {
        None
    } else {
        let l3 = limit.clone();
        let rops = s.reader.clone();
        Some(shuttle::thread::spawn(move || c14_limit_ops(&l3, &rops)))
    };
    for j in [Some(writer), reader, Some(consumer)].into_iter().flatten() {
        if let Err(e) = j.join() {
            std::panic::resume_unwind(e);
        }
    }
    drop(limit);
    polls.load(Ordering::SeqCst)
}

// Linearizability checker (Wing-Gong search with memoisation) against the sequential
// specification of one observable and its subscribers (DESIGN.md §4.4). Shared with TaskSim by include!.

use serde::{Deserialize, Serialize};
use std::collections::HashSet;

/// Histories on which the search budget ran out (no verdict).
pub static UNDECIDED: std::sync::atomic::AtomicU64 = std::sync::atomic::AtomicU64::new(0);

/// The value an `update(t)` closure computes from `v`: any lost or reordered update changes it.
pub fn upd(v: u64, t: u64) -> u64 {
    (v.wrapping_mul(31).wrapping_add(t)) % 1_000_003
}

#[derive(Clone, Debug, PartialEq, Eq, Serialize, Deserialize)]
pub enum PollR {
    Pending,
    Some(u64),
    End,
}

#[derive(Clone, Debug, PartialEq, Eq, Serialize, Deserialize)]
pub enum HOp {
    Set(u64),
    SetIfNotEq(u64),
    Take,
    Update(u64),
    UpdateIf(u64, bool),
    /// get / read / read-hold on an owner or get/read on a subscriber: returns the stored value
    Read,
    /// write-guard read-modify-write: atomically value = upd(value, t), returns the old value
    Rmw(u64),
    CloneOwner,
    /// Dropping an owner handle is not one atomic step: the handle first stops counting as an
    /// owner (`Release`: upgrades can no longer rely on it) and, still inside the same drop call,
    /// the stream is ended if no owner is left (`Finish`). Both carry the interval of the drop call.
    Release(u32),
    Finish(u32),
    Upgrade,
    Subscribe { id: usize, reset: bool },
    SubClone { from: usize, id: usize },
    NextNow(usize),
    /// `Subscriber::reset`: nothing observed any more
    SubReset(usize),
    /// non-blocking poll
    Poll(usize),
    /// blocking next(): like Poll but never returns Pending
    Next(usize),
}

#[derive(Clone, Debug, PartialEq, Eq, Serialize, Deserialize)]
pub enum Res {
    Unit,
    Val(u64),
    Opt(Option<u64>),
    Bool(bool),
    Poll(PollR),
}

#[derive(Clone, Debug, Serialize, Deserialize)]
pub struct Event {
    pub tid: usize,
    pub op: HOp,
    pub inv: u64,
    pub ret: u64,
    pub res: Res,
}

#[derive(Clone, Debug, Hash, PartialEq, Eq)]
pub struct Spec {
    pub value: u64,
    pub version: u32,
    /// owner handles that count as owners (for upgrade and for keeping the stream open)
    pub owners: u32,
    pub closed: bool,
    /// drops whose `Release` has been linearized but whose `Finish` has not (bit per drop id)
    pub releasing: u64,
    /// observed version per subscriber id (u32::MAX: does not exist yet)
    pub observed: Vec<u32>,
}

impl Spec {
    fn closed(&self) -> bool {
        self.closed
    }
    fn set(&mut self, v: u64) -> u64 {
        self.version += 1;
        std::mem::replace(&mut self.value, v)
    }
    fn poll(&mut self, id: usize) -> PollR {
        if self.closed() {
            PollR::End
        } else if self.observed[id] < self.version {
            self.observed[id] = self.version;
            PollR::Some(self.value)
        } else {
            PollR::Pending
        }
    }
    /// Apply `op`; returns the result the sequential specification gives, or None if the operation
    /// is not enabled in this state.
    fn apply(&mut self, op: &HOp) -> Option<Res> {
        Some(match op {
            HOp::Set(v) => Res::Val(self.set(*v)),
            HOp::SetIfNotEq(v) => {
                if self.value != *v {
                    Res::Opt(Some(self.set(*v)))
                } else {
                    Res::Opt(None)
                }
            }
            HOp::Take => Res::Val(self.set(0)),
            HOp::Update(t) => {
                let n = upd(self.value, *t);
                self.set(n);
                Res::Unit
            }
            HOp::UpdateIf(t, notify) => {
                self.value = upd(self.value, *t);
                if *notify {
                    self.version += 1;
                }
                Res::Unit
            }
            HOp::Read => Res::Val(self.value),
            HOp::Rmw(t) => {
                let n = upd(self.value, *t);
                Res::Val(self.set(n))
            }
            HOp::CloneOwner => {
                if self.owners == 0 {
                    return None;
                }
                self.owners += 1;
                Res::Unit
            }
            HOp::Release(k) => {
                if self.owners == 0 {
                    return None;
                }
                self.owners -= 1;
                self.releasing |= 1 << (*k % 64);
                Res::Unit
            }
            HOp::Finish(k) => {
                if self.releasing & (1 << (*k % 64)) == 0 {
                    return None;
                }
                self.releasing &= !(1 << (*k % 64));
                if self.owners == 0 {
                    self.closed = true;
                }
                Res::Unit
            }
            HOp::Upgrade => {
                if self.owners > 0 {
                    self.owners += 1;
                    Res::Bool(true)
                } else {
                    Res::Bool(false)
                }
            }
            HOp::Subscribe { id, reset } => {
                if self.observed.len() <= *id {
                    self.observed.resize(*id + 1, u32::MAX);
                }
                self.observed[*id] = if *reset { 0 } else { self.version };
                Res::Unit
            }
            HOp::SubClone { from, id } => {
                if self.observed.len() <= *id {
                    self.observed.resize(*id + 1, u32::MAX);
                }
                self.observed[*id] = self.observed[*from];
                Res::Unit
            }
            HOp::NextNow(id) => {
                self.observed[*id] = self.version;
                Res::Val(self.value)
            }
            HOp::SubReset(id) => {
                self.observed[*id] = 0;
                Res::Unit
            }
            HOp::Poll(id) => Res::Poll(self.poll(*id)),
            HOp::Next(id) => match self.poll(*id) {
                PollR::Pending => return None,
                r => Res::Poll(r),
            },
        })
    }
}

/// Ok(()) if `events` is linearizable w.r.t. the specification started in `init`; otherwise a
/// description of the longest linearizable prefix found.
pub fn check(init: &Spec, events: &[Event]) -> Result<(), String> {
    let n = events.len();
    if n > 63 {
        return Err(format!("history too long for the checker ({n} events)"));
    }
    let full: u64 = if n == 0 { 0 } else { (1u64 << n) - 1 };
    let mut memo: HashSet<(u64, Spec)> = HashSet::new();
    let mut best: (u32, u64) = (0, 0);
    fn dfs(events: &[Event], done: u64, full: u64, st: &Spec, memo: &mut HashSet<(u64, Spec)>, best: &mut (u32, u64), budget: &mut u64) -> bool {
        if done == full {
            return true;
        }
        if *budget == 0 {
            return false;
        }
        *budget -= 1;
        if !memo.insert((done, st.clone())) {
            return false;
        }
        if done.count_ones() > best.0 {
            *best = (done.count_ones(), done);
        }
        // an operation may be linearized next only if no other pending operation returned before
        // it was invoked
        let mut min_ret = u64::MAX;
        for (i, e) in events.iter().enumerate() {
            if done & (1 << i) == 0 {
                min_ret = min_ret.min(e.ret);
            }
        }
        for (i, e) in events.iter().enumerate() {
            if done & (1 << i) != 0 || e.inv > min_ret {
                continue;
            }
            let mut s2 = st.clone();
            if let Some(r) = s2.apply(&e.op) {
                if r == e.res && dfs(events, done | (1 << i), full, &s2, memo, best, budget) {
                    return true;
                }
            }
        }
        false
    }
    let mut budget = 2_000_000u64;
    if dfs(events, 0, full, init, &mut memo, &mut best, &mut budget) {
        return Ok(());
    }
    if budget == 0 {
        // undecided within the budget: not reported as a violation, but counted
        UNDECIDED.fetch_add(1, std::sync::atomic::Ordering::Relaxed);
        return Ok(());
    }
    let stuck: Vec<String> = events.iter().enumerate().filter(|(i, _)| best.1 & (1 << i) == 0).map(|(_, e)| format!("t{} {:?} -> {:?} [{}..{}]", e.tid, e.op, e.res, e.inv, e.ret)).collect();
    let all: Vec<String> = events.iter().map(|e| format!("t{} {:?} -> {:?} [{}..{}]", e.tid, e.op, e.res, e.inv, e.ret)).collect();
    Err(format!("no linearization: at most {} of {} operations can be ordered consistently; operations left out: {} || initial {:?} || history: {}", best.0, n, stuck.join("; "), init, all.join("; ")))
}

#[cfg(test)]
mod tests {
    use super::*;
    fn ev(tid: usize, op: HOp, inv: u64, ret: u64, res: Res) -> Event {
        Event { tid, op, inv, ret, res }
    }
    fn init() -> Spec {
        Spec { value: 1, version: 1, owners: 1, closed: false, releasing: 0, observed: vec![] }
    }
    #[test]
    fn sequential_ok() {
        let h = vec![ev(0, HOp::Set(5), 0, 1, Res::Val(1)), ev(1, HOp::Read, 2, 3, Res::Val(5))];
        assert!(check(&init(), &h).is_ok());
    }
    #[test]
    fn stale_read_rejected() {
        let h = vec![ev(0, HOp::Set(5), 0, 1, Res::Val(1)), ev(1, HOp::Read, 2, 3, Res::Val(1))];
        assert!(check(&init(), &h).is_err());
    }
    #[test]
    fn concurrent_sets_either_order() {
        let h = vec![ev(0, HOp::Set(5), 0, 3, Res::Val(6)), ev(1, HOp::Set(6), 1, 2, Res::Val(1))];
        assert!(check(&init(), &h).is_ok());
        let h = vec![ev(0, HOp::Set(5), 0, 3, Res::Val(1)), ev(1, HOp::Set(6), 1, 2, Res::Val(1))];
        assert!(check(&init(), &h).is_err(), "both sets cannot have seen the initial value");
    }
    #[test]
    fn lost_update_rejected() {
        let h = vec![ev(0, HOp::Update(2), 0, 3, Res::Unit), ev(1, HOp::Update(3), 1, 2, Res::Unit), ev(0, HOp::Read, 4, 5, Res::Val(upd(1, 2)))];
        assert!(check(&init(), &h).is_err());
    }
    #[test]
    fn subscriber_must_not_go_backwards() {
        let mut i = init();
        i.observed = vec![1];
        let h = vec![
            ev(0, HOp::Set(5), 0, 1, Res::Val(1)),
            ev(0, HOp::Set(6), 2, 3, Res::Val(5)),
            ev(1, HOp::Next(0), 0, 4, Res::Poll(PollR::Some(6))),
            ev(1, HOp::Next(0), 5, 9, Res::Poll(PollR::Some(5))),
        ];
        assert!(check(&i, &h).is_err());
    }
    #[test]
    fn end_only_after_last_owner() {
        let mut i = init();
        i.observed = vec![1];
        let h = vec![ev(1, HOp::Next(0), 0, 1, Res::Poll(PollR::End)), ev(0, HOp::Release(0), 2, 3, Res::Unit), ev(0, HOp::Finish(0), 2, 3, Res::Unit)];
        assert!(check(&i, &h).is_err());
        let h = vec![ev(1, HOp::Next(0), 0, 5, Res::Poll(PollR::End)), ev(0, HOp::Release(0), 2, 3, Res::Unit), ev(0, HOp::Finish(0), 2, 3, Res::Unit)];
        assert!(check(&i, &h).is_ok());
        // an upgrade may fail while the last drop is in progress and the stream is still open ...
        let h = vec![
            ev(0, HOp::Release(0), 0, 8, Res::Unit),
            ev(0, HOp::Finish(0), 0, 8, Res::Unit),
            ev(1, HOp::Upgrade, 1, 2, Res::Bool(false)),
            ev(2, HOp::Poll(0), 4, 5, Res::Poll(PollR::Pending)),
        ];
        assert!(check(&i, &h).is_ok());
        // ... but an upgrade must not succeed after the stream ended
        let h = vec![
            ev(0, HOp::Release(0), 0, 8, Res::Unit),
            ev(0, HOp::Finish(0), 0, 8, Res::Unit),
            ev(2, HOp::Poll(0), 1, 2, Res::Poll(PollR::End)),
            ev(1, HOp::Upgrade, 4, 5, Res::Bool(true)),
        ];
        assert!(check(&i, &h).is_err());
    }
}

//! threadsim — thread-level deterministic simulator (shuttle) for eyeball's sync flavour.
//! See /verif/DESIGN.md §2.2.

mod exec;
mod lin;
mod program;

use program::{gen_program, Op, Program};
use serde::{Deserialize, Serialize};
use shuttle::scheduler::{PctScheduler, RandomScheduler, ReplayScheduler, Scheduler, UncontrolledNondeterminismCheckScheduler};
use shuttle::{Config, FailurePersistence, MaxSteps, Runner};
use shuttle_engine::runtime::execution::CurrentSchedule;
use shuttle_engine::scheduler::serialization::serialize_schedule;
use shuttle_engine::scheduler::ScheduleStep;
use std::cell::RefCell;
use std::collections::HashSet;
use std::panic::{catch_unwind, AssertUnwindSafe};
use std::sync::atomic::{AtomicBool, AtomicU64, Ordering};
use std::sync::{Arc, Mutex};
use std::time::{Duration, Instant};

thread_local! {
    static LAST_SCHEDULE: RefCell<Option<(String, usize)>> = const { RefCell::new(None) };
    static FPS: RefCell<(HashSet<u64>, HashSet<u64>)> = RefCell::new((HashSet::new(), HashSet::new()));
    static EVENTS: RefCell<u64> = const { RefCell::new(0) };
}

fn switches(steps: &[ScheduleStep]) -> usize {
    let mut n = 0;
    let mut last = None;
    for s in steps {
        if let ScheduleStep::Task(t) = s {
            if last.is_some() && last != Some(*t) {
                n += 1;
            }
            last = Some(*t);
        }
    }
    n
}

fn install_hook() {
    // shuttle chains to the hook that is installed when its first Runner starts
    std::panic::set_hook(Box::new(|_info| {
        let r = catch_unwind(|| {
            let s = CurrentSchedule::get_schedule();
            (serialize_schedule(&s), switches(&s.steps))
        });
        if let Ok(v) = r {
            let _ = LAST_SCHEDULE.try_with(|l| {
                if let Ok(mut l) = l.try_borrow_mut() {
                    if l.is_none() {
                        *l = Some(v);
                    }
                }
            });
        }
    }));
}

fn config() -> Config {
    let mut c = Config::new();
    c.failure_persistence = FailurePersistence::None;
    c.max_steps = MaxSteps::FailAfter(200_000);
    c.silence_warnings = true;
    c
}

#[derive(Clone, Debug, Serialize, Deserialize, PartialEq)]
struct Failure {
    class: String,
    message: String,
    schedule: String,
    context_switches: usize,
    scheduler: String,
}

fn classify(msg: &str) -> String {
    if let Some(rest) = msg.strip_prefix(exec::ORACLE) {
        rest.trim().split(':').next().unwrap_or("oracle").trim().to_string()
    } else if msg.starts_with("deadlock!") {
        "deadlock".into()
    } else if msg.contains("exceeded max_steps") || msg.contains("max_steps") {
        "livelock".into()
    } else {
        "library_panic".into()
    }
}

fn panic_text(p: Box<dyn std::any::Any + Send>) -> String {
    if let Some(s) = p.downcast_ref::<&str>() {
        s.to_string()
    } else if let Some(s) = p.downcast_ref::<String>() {
        s.clone()
    } else {
        "<non-string panic>".into()
    }
}

/// The closure shuttle executes once per schedule.
fn body(p: &Program) {
    let n = exec::run_program(p);
    let s = CurrentSchedule::get_schedule();
    let sw = switches(&s.steps);
    let mut h: u64 = 0xcbf2_9ce4_8422_2325;
    for st in &s.steps {
        let x: u64 = match st {
            ScheduleStep::Task(t) => 1 + usize::from(*t) as u64,
            ScheduleStep::Random => 0,
        };
        h = (h ^ x).wrapping_mul(0x0000_0100_0000_01B3);
    }
    FPS.with(|f| {
        let mut f = f.borrow_mut();
        if f.0.len() < 1_000_000 {
            f.0.insert(h);
        }
        if sw >= 3 && n >= 4 && f.1.len() < 1_000_000 {
            f.1.insert(h);
        }
    });
    EVENTS.with(|e| *e.borrow_mut() += n as u64);
}

/// Run `iters` schedules of `p` under scheduler `S`; Ok(executions) or the first failure.
fn explore<S: Scheduler + 'static>(p: &Program, sched: S, name: &str) -> Result<usize, Failure> {
    LAST_SCHEDULE.with(|l| *l.borrow_mut() = None);
    let p2 = p.clone();
    let r = catch_unwind(AssertUnwindSafe(|| Runner::new(sched, config()).run(move || body(&p2))));
    match r {
        Ok(n) => Ok(n),
        Err(e) => {
            let message = panic_text(e);
            let (schedule, context_switches) = LAST_SCHEDULE.with(|l| l.borrow_mut().take()).unwrap_or_default();
            Err(Failure { class: classify(&message), message, schedule, context_switches, scheduler: name.into() })
        }
    }
}

fn explore_all(p: &Program, seed: u64, schedules: usize, pct: bool) -> Result<usize, Failure> {
    let mut n = explore(p, RandomScheduler::new_from_seed(seed, schedules), "random")?;
    if pct {
        for d in 1..=3usize {
            n += explore(p, PctScheduler::new_from_seed(seed ^ (d as u64) << 32, d, schedules / 3 + 1), &format!("pct{d}"))?;
        }
    }
    Ok(n)
}

// ------------------------------------------------------------------------------------------------
// minimisation

fn simpler_programs(p: &Program) -> Vec<Program> {
    let mut out = Vec::new();
    if let Some(c) = &p.c14 {
        let with = |f: &dyn Fn(&mut program::C14Spec)| {
            let mut q = p.clone();
            f(q.c14.as_mut().unwrap());
            q
        };
        for k in 0..c.writer.len().saturating_sub(1) {
            out.push(with(&|c| {
                c.writer.remove(k);
            }));
        }
        for k in 0..c.reader.len() {
            out.push(with(&|c| {
                c.reader.remove(k);
            }));
        }
        for k in 0..c.writer.len() {
            if let program::LOp::GuardSet(v) | program::LOp::SetIfNotEq(v) = c.writer[k] {
                out.push(with(&|c| c.writer[k] = program::LOp::Set(v)));
            }
        }
        if c.with_initial.is_some() {
            out.push(with(&|c| c.with_initial = None));
        }
        if c.reset {
            out.push(with(&|c| c.reset = false));
        }
        if c.batched {
            out.push(with(&|c| c.batched = false));
        }
        if c.same_waker {
            out.push(with(&|c| c.same_waker = false));
        }
        if c.warmup_polls > 0 {
            out.push(with(&|c| c.warmup_polls -= 1));
        }
        return out;
    }
    for t in 0..p.threads.len() {
        if p.threads.len() > 1 && !(p.unique && t == 0) {
            let mut q = p.clone();
            q.threads.remove(t);
            out.push(q);
        }
    }
    for t in 0..p.threads.len() {
        for k in 0..p.threads[t].ops.len() {
            let mut q = p.clone();
            q.threads[t].ops.remove(k);
            out.push(q);
        }
    }
    for t in 0..p.threads.len() {
        let th = &p.threads[t];
        if th.owners > 1 {
            let mut q = p.clone();
            q.threads[t].owners -= 1;
            out.push(q);
        }
        if th.weak {
            let mut q = p.clone();
            q.threads[t].weak = false;
            out.push(q);
        }
        if th.sub == Some(true) {
            let mut q = p.clone();
            q.threads[t].sub = Some(false);
            out.push(q);
        }
        for k in 0..th.ops.len() {
            let simpler = match &th.ops[k] {
                Op::SetIfNotEq(v) => Some(Op::Set(*v)),
                Op::SetIfHashNotEq(v) => Some(Op::SetIfNotEq(*v)),
                Op::TryWriteRmw(t) => Some(Op::WriteRmw(*t)),
                Op::TryRead => Some(Op::ReadHold),
                Op::SubNextRefNow => Some(Op::SubNextNow),
                Op::PollNextRef => Some(Op::PollOnce),
                Op::SubCloneReset => Some(Op::SubClone),
                Op::Take => Some(Op::Set(7)),
                Op::UpdateIf(t, _) => Some(Op::Update(*t)),
                Op::WriteRmw(t) => Some(Op::Update(*t)),
                Op::ReadHold => Some(Op::Get),
                Op::SubReadHold => Some(Op::SubGet),
                Op::BlockUntilEndSame => Some(Op::BlockUntilEnd),
                Op::WaitThenNextNow => Some(Op::SubNextNow),
                Op::Upgrade { keep: true } => Some(Op::Upgrade { keep: false }),
                Op::Subscribe { reset: true } => Some(Op::Subscribe { reset: false }),
                _ => None,
            };
            if let Some(s) = simpler {
                let mut q = p.clone();
                q.threads[t].ops[k] = s;
                out.push(q);
            }
        }
    }
    out
}

fn minimise(p: &Program, f: &Failure, seed: u64) -> (Program, Failure, u64) {
    let mut cur = p.clone();
    let mut cur_f = f.clone();
    let mut evals = 0u64;
    let batch = 4000usize;
    'outer: loop {
        for cand in simpler_programs(&cur) {
            evals += 1;
            if let Err(g) = explore_all(&cand, seed, batch, true) {
                if g.class == f.class {
                    cur = cand;
                    cur_f = g;
                    continue 'outer;
                }
            }
            if evals > 400 {
                break 'outer;
            }
        }
        break;
    }
    // among failing schedules of the minimised program, keep the one with the fewest context
    // switches (sampling: shuttle has no schedule shrinker)
    for k in 0..24u64 {
        for (name, r) in [
            ("random", explore(&cur, RandomScheduler::new_from_seed(seed.wrapping_add(1000 + k), batch), "random")),
            ("pct1", explore(&cur, PctScheduler::new_from_seed(seed.wrapping_add(2000 + k), 1, batch), "pct1")),
            ("pct2", explore(&cur, PctScheduler::new_from_seed(seed.wrapping_add(3000 + k), 2, batch), "pct2")),
        ] {
            let _ = name;
            evals += 1;
            if let Err(g) = r {
                if g.class == f.class && (g.context_switches, g.schedule.len()) < (cur_f.context_switches, cur_f.schedule.len()) {
                    cur_f = g;
                }
            }
        }
    }
    (cur, cur_f, evals)
}

// ------------------------------------------------------------------------------------------------

#[derive(Serialize, Deserialize)]
struct ReplayFile {
    property: String,
    engine: String,
    seed: u64,
    program_index: u64,
    program: Program,
    shuttle_schedule: String,
    context_switches: usize,
    scheduler: String,
    violation: Violation,
    minimiser_evaluations: u64,
}

#[derive(Serialize, Deserialize, Clone, PartialEq, Debug)]
struct Violation {
    class: String,
    message: String,
}

struct Args {
    cmd: String,
    prop: String,
    tier: String,
    seed: u64,
    programs: Option<u64>,
    schedules: Option<usize>,
    secs: Option<u64>,
    jobs: usize,
    out: String,
    file: Option<String>,
    evidence: bool,
    evidence_name: Option<String>,
}

fn parse() -> Args {
    let mut a = Args {
        cmd: String::new(),
        prop: String::new(),
        tier: std::env::var("VERIF_TIER").unwrap_or_else(|_| "quick".into()),
        seed: std::env::var("VERIF_SEED").ok().and_then(|s| s.parse().ok()).unwrap_or(1),
        programs: None,
        schedules: None,
        secs: None,
        jobs: std::env::var("VERIF_JOBS").ok().and_then(|s| s.parse().ok()).unwrap_or_else(|| std::thread::available_parallelism().map(|n| n.get()).unwrap_or(4)),
        out: "/verif".into(),
        file: None,
        evidence: true,
        evidence_name: None,
    };
    let mut it = std::env::args().skip(1);
    a.cmd = it.next().unwrap_or_default();
    while let Some(x) = it.next() {
        match x.as_str() {
            "--tier" => a.tier = it.next().unwrap(),
            "--seed" => a.seed = it.next().unwrap().parse().unwrap(),
            "--programs" | "--runs" => a.programs = Some(it.next().unwrap().parse().unwrap()),
            "--schedules" => a.schedules = Some(it.next().unwrap().parse().unwrap()),
            "--secs" => a.secs = Some(it.next().unwrap().parse().unwrap()),
            "--jobs" => a.jobs = it.next().unwrap().parse().unwrap(),
            "--out" => a.out = it.next().unwrap(),
            "--no-evidence" => a.evidence = false,
            "--evidence-name" => a.evidence_name = Some(it.next().unwrap()),
            s if a.cmd == "replay" && a.file.is_none() => a.file = Some(s.into()),
            s if a.prop.is_empty() => a.prop = s.into(),
            s => {
                eprintln!("unexpected argument {s}");
                std::process::exit(2);
            }
        }
    }
    a
}

fn family(prop: &str) -> &'static str {
    match prop {
        "C02" | "C02T" => "C02T",
        "C03" | "C03T" => "C03T",
        "C14" | "C14T" => "C14T",
        _ => "C04",
    }
}

fn check(a: &Args) -> i32 {
    let fam = family(&a.prop);
    let prop = a.prop.trim_end_matches('T').to_string();
    let thorough = a.tier == "thorough";
    let programs = a.programs.unwrap_or(if thorough { u64::MAX / 2 } else { 400 });
    let schedules = a.schedules.unwrap_or(if thorough { 3000 } else { 400 });
    let limit = a.secs.map(Duration::from_secs).or(if thorough && a.programs.is_none() { Some(Duration::from_secs(240)) } else { None });
    println!("threadsim check property={} family={} tier={} VERIF_SEED={} jobs={} programs={} random-schedules/program={} pct={} time_limit={:?}", prop, fam, a.tier, a.seed, a.jobs, programs, schedules, thorough, limit);
    let start = Instant::now();
    let next = AtomicU64::new(0);
    let best = AtomicU64::new(u64::MAX);
    let stop = AtomicBool::new(false);
    let found: Mutex<Option<(u64, Program, Failure)>> = Mutex::new(None);
    let execs = AtomicU64::new(0);
    let progs = AtomicU64::new(0);
    let events = AtomicU64::new(0);
    let points = AtomicU64::new(0);
    let fps: Mutex<(HashSet<u64>, HashSet<u64>)> = Mutex::new((HashSet::new(), HashSet::new()));
    std::thread::scope(|s| {
        for _ in 0..a.jobs.max(1) {
            s.spawn(|| {
                loop {
                    if stop.load(Ordering::Relaxed) {
                        break;
                    }
                    if let Some(l) = limit {
                        if start.elapsed() > l {
                            stop.store(true, Ordering::Relaxed);
                            break;
                        }
                    }
                    let i = next.fetch_add(1, Ordering::Relaxed);
                    if i >= programs || i > best.load(Ordering::Relaxed) {
                        break;
                    }
                    let p = gen_program(fam, a.seed, i);
                    match explore_all(&p, a.seed ^ i.wrapping_mul(0x9E37_79B9), schedules, true) {
                        Ok(n) => {
                            execs.fetch_add(n as u64, Ordering::Relaxed);
                            progs.fetch_add(1, Ordering::Relaxed);
                        }
                        Err(f) => {
                            best.fetch_min(i, Ordering::Relaxed);
                            let mut g = found.lock().unwrap();
                            if g.as_ref().map_or(true, |x| i < x.0) {
                                *g = Some((i, p, f));
                            }
                        }
                    }
                }
                let (a1, a2) = FPS.with(|f| std::mem::take(&mut *f.borrow_mut()));
                let mut g = fps.lock().unwrap();
                if g.0.len() < 4_000_000 {
                    g.0.extend(a1);
                    g.1.extend(a2);
                }
                events.fetch_add(EVENTS.with(|e| *e.borrow()), Ordering::Relaxed);
                points.fetch_add(eyeball_verif_sync::points(), Ordering::Relaxed);
            });
        }
    });
    let wall = start.elapsed().as_secs_f64();
    let (distinct, distinct_nt) = {
        let g = fps.lock().unwrap();
        (g.0.len(), g.1.len())
    };
    let n_exec = execs.load(Ordering::Relaxed);
    println!("programs={} executions={} distinct_schedules={} distinct_nontrivial={} history_events={} refcount_scheduling_points={} wall={:.2}s ({:.0} executions/s)", progs.load(Ordering::Relaxed), n_exec, distinct, distinct_nt, events.load(Ordering::Relaxed), points.load(Ordering::Relaxed), wall, n_exec as f64 / wall.max(1e-9));
    let mut code = 0;
    let mut extra = serde_json::json!({});
    if let Some((idx, p, f)) = found.into_inner().unwrap() {
        println!("violation in program {} (seed {}): class={} scheduler={} — {}", idx, a.seed, f.class, f.scheduler, f.message.lines().next().unwrap_or(""));
        let (mp, mf, evals) = minimise(&p, &f, a.seed ^ 0x77);
        println!("minimised to {} thread(s) / {} op(s), {} context switches, in {} batches: {}", if mp.c14.is_some() { 3 } else { mp.threads.len() }, mp.threads.iter().map(|t| t.ops.len()).sum::<usize>() + mp.c14.as_ref().map_or(0, |c| c.writer.len() + c.reader.len()), mf.context_switches, evals, mf.message.lines().next().unwrap_or(""));
        let dir = format!("{}/replays", a.out);
        let _ = std::fs::create_dir_all(&dir);
        let path = format!("{}/{}-thread-{}-{}.json", dir, prop, a.seed, idx);
        let rf = ReplayFile { property: prop.clone(), engine: "threadsim".into(), seed: a.seed, program_index: idx, program: mp, shuttle_schedule: mf.schedule.clone(), context_switches: mf.context_switches, scheduler: mf.scheduler.clone(), violation: Violation { class: mf.class.clone(), message: mf.message.clone() }, minimiser_evaluations: evals };
        std::fs::write(&path, serde_json::to_string_pretty(&rf).unwrap()).unwrap();
        let st = std::process::Command::new(std::env::current_exe().unwrap()).args(["replay", &path]).stdout(std::process::Stdio::null()).stderr(std::process::Stdio::null()).status();
        match st {
            Ok(s) if s.code() == Some(1) => {
                println!("VIOLATION property={} replay={}", prop, path);
                code = 1;
            }
            other => {
                eprintln!("harness error: replay of {} in a fresh process did not reproduce the violation ({:?})", path, other);
                code = 2;
            }
        }
        extra = serde_json::json!({"violation": {"class": mf.class, "message": mf.message}, "replay": path});
    }
    if a.evidence && code != 2 {
        let samples: Vec<serde_json::Value> = (0..2).map(|i| serde_json::json!({"program_index": i, "program": gen_program(fam, a.seed, i)})).collect();
        let ev = serde_json::json!({
            "property_id": prop,
            "tier": a.tier,
            "seed": a.seed,
            "level": "exploration",
            "coverage": {
                "evaluations": n_exec,
                "distinct_nontrivial": distinct_nt,
                "rule": "one evaluation = one shuttle execution = (program generated from VERIF_SEED and program index) x (one schedule drawn by the seeded random / PCT scheduler). Two executions are distinct when the hash of their complete schedule (task chosen at every scheduling point) differs; non-trivial = at least 3 context switches and at least 4 recorded operations. Counted per worker in capped hash sets (conservative).",
                "samples": samples,
                "programs": progs.load(Ordering::Relaxed),
                "schedules_per_program": schedules,
                "schedulers": "seeded random + PCT depth 1..3 (a third of the random budget each)",
                "distinct_schedules": distinct,
                "history_events_checked": events.load(Ordering::Relaxed),
                "histories_without_verdict_(search_budget)": lin::UNDECIDED.load(Ordering::Relaxed),
                "refcount_scheduling_points_passed": points.load(Ordering::Relaxed),
                "executions_per_hour": (n_exec as f64 / wall.max(1e-9) * 3600.0) as u64,
                "faults_injected": {"F8_preemption": "a context switch is possible before every lock acquire/try/release and every Arc/Weak count operation; see distinct_schedules"},
                "extra": extra,
            },
            "assumptions": [
                "sampling, not proof",
                "real code: eyeball (sync flavour, --cfg eyeball_verif: alias only) from /repo's working tree; readlock 0.1.11 vendored with its sync imports swapped (checked by tools/check_vendored_readlock.sh)",
                "model: shuttle's RwLock stands for std::sync::RwLock (no writer preference, no recursive read); std Arc/Weak are real, wrapped to add scheduling points",
                "the linearizability checker gives up (no verdict) after 2e6 search nodes; histories are kept under 40 operations"
            ],
            "wall_s": wall,
            "violations": if code == 1 { 1 } else { 0 },
        });
        let dir = format!("{}/evidence", a.out);
        let _ = std::fs::create_dir_all(&dir);
        let name = a.evidence_name.clone().unwrap_or_else(|| format!("{}.json", prop));
        std::fs::write(format!("{}/{}", dir, name), serde_json::to_string_pretty(&ev).unwrap()).unwrap();
    }
    code
}

fn replay(a: &Args) -> i32 {
    let path = a.file.clone().unwrap_or_default();
    let Ok(text) = std::fs::read_to_string(&path) else {
        eprintln!("cannot read {path}");
        return 2;
    };
    let rf: ReplayFile = match serde_json::from_str(&text) {
        Ok(r) => r,
        Err(e) => {
            eprintln!("cannot parse {path}: {e}");
            return 2;
        }
    };
    let p = rf.program.clone();
    let r = explore(&p, ReplayScheduler::new_from_encoded(&rf.shuttle_schedule), "replay");
    match r {
        Err(f) if f.message == rf.violation.message => {
            println!("replay reproduced exactly: {}", f.message.lines().next().unwrap_or(""));
            println!("VIOLATION property={} replay={}", rf.property, path);
            1
        }
        Err(f) if f.class == rf.violation.class => {
            println!("replay reproduced the same class with a different message: {}", f.message.lines().next().unwrap_or(""));
            println!("VIOLATION property={} replay={}", rf.property, path);
            1
        }
        Err(f) if f.message.contains("scheduled task is not runnable") || f.message.contains("schedule ended early") => {
            println!("replay did not reproduce the recorded violation: the recorded schedule no longer fits the program's behaviour (the code changed)");
            0
        }
        Err(f) => {
            println!("replay produced a different failure: {}", f.message.lines().next().unwrap_or("").chars().take(300).collect::<String>());
            3
        }
        Ok(_) => {
            println!("replay did not reproduce the recorded violation (property holds on this schedule)");
            0
        }
    }
}

/// Determinism guard: shuttle's uncontrolled-nondeterminism scheduler re-runs every schedule and
/// panics if the program behaves differently.
fn selftest(a: &Args) -> i32 {
    let mut bad = 0;
    for fam in ["C04", "C02T", "C03T", "C14T"] {
        for i in 0..a.programs.unwrap_or(40) {
            let p = gen_program(fam, a.seed, i);
            let p2 = p.clone();
            let r = catch_unwind(AssertUnwindSafe(|| {
                Runner::new(UncontrolledNondeterminismCheckScheduler::new(RandomScheduler::new_from_seed(a.seed ^ i, 60)), config()).run(move || body(&p2))
            }));
            if let Err(e) = r {
                let m = panic_text(e);
                println!("selftest: family {fam} program {i}: {}", m.lines().next().unwrap_or(""));
                bad += 1;
            }
        }
    }
    // two batches must give identical per-program outcomes
    let run = |fam: &str| -> Vec<String> {
        (0..20u64)
            .map(|i| match explore_all(&gen_program(fam, a.seed, i), a.seed ^ i, 200, false) {
                Ok(n) => format!("ok{n}"),
                Err(f) => format!("{}:{}", f.class, f.schedule),
            })
            .collect()
    };
    for fam in ["C04", "C02T", "C03T", "C14T"] {
        if run(fam) != run(fam) {
            println!("selftest: family {fam}: two identical batches differ");
            bad += 1;
        }
    }
    println!("selftest determinism: {}", if bad == 0 { "ok" } else { "FAILED" });
    if bad == 0 {
        0
    } else {
        2
    }
}

fn main() {
    install_hook();
    let a = parse();
    let _ = Arc::new(0);
    let code = match a.cmd.as_str() {
        "check" => check(&a),
        "replay" => replay(&a),
        "selftest" => selftest(&a),
        _ => {
            eprintln!("usage: threadsim check <C02|C03|C04> [--tier quick|thorough] [--seed N] [--programs N] [--schedules N] [--secs N] | replay <file> | selftest");
            2
        }
    };
    std::process::exit(code);
}

//! ThreadSim programs: a fixed multi-threaded workload over one observable, generated from
//! VERIF_SEED outside shuttle and stored as data. Shuttle then explores schedules of that program.

use serde::{Deserialize, Serialize};

#[derive(Clone, Debug, Serialize, Deserialize, PartialEq, Eq)]
pub enum Op {
    Set(u64),
    SetIfNotEq(u64),
    /// on `u64` values equal hashes mean equal values: specified like `SetIfNotEq`
    SetIfHashNotEq(u64),
    Take,
    Update(u64),
    UpdateIf(u64, bool),
    Get,
    /// `try_write()`: on success read-modify-write through the guard (as `WriteRmw`), on `WouldBlock` nothing
    TryWriteRmw(u64),
    /// `try_read()`: on success the value is read through the guard, on `WouldBlock` nothing
    TryRead,
    /// read guard held across a scheduling point; the value must not change underneath
    ReadHold,
    /// write guard: read, scheduling point, write f(read); the set must return what was read
    WriteRmw(u64),
    CloneOwner,
    /// the unique `Observable` becomes a `SharedObservable` (subscribers stay valid)
    IntoShared,
    DropOwner,
    Downgrade,
    Upgrade { keep: bool },
    WeakDrop,
    Subscribe { reset: bool },
    SubGet,
    /// subscriber read guard (`read()`) held across a scheduling point
    SubReadHold,
    SubNextNow,
    /// `next_ref_now()`: the value seen through the returned guard (marks it observed)
    SubNextRefNow,
    PollOnce,
    /// one poll of a fresh `next_ref()` future; the value is read through the guard it yields
    PollNextRef,
    /// `Subscriber::reset`
    SubReset,
    SubClone,
    /// `Subscriber::clone_reset`
    SubCloneReset,
    SubDrop,
    /// `loop { block_on(sub.next()) }` until None; the thread first gives up its owner handles
    BlockUntilEnd,
    /// the same loop driven by the thread's own persistent waker (park / unpark): every poll of the
    /// task presents the *same* waker, as an executor does
    BlockUntilEndSame,
    /// poll `next()` once with the thread's persistent waker; if Pending, park until woken; then
    /// take the value with `next_now()` (the pending `next()` is abandoned)
    WaitThenNextNow,
    Yield,
}

#[derive(Clone, Debug, Serialize, Deserialize, PartialEq, Eq)]
pub struct ThreadSpec {
    /// owner clones the thread starts with (shared flavour); thread 0 holds the unique Observable
    pub owners: u8,
    pub weak: bool,
    /// starts with a subscriber: Some(reset?)
    pub sub: Option<bool>,
    pub ops: Vec<Op>,
}

#[derive(Clone, Debug, Serialize, Deserialize, PartialEq, Eq)]
pub struct Program {
    /// the owner is a unique `Observable` held by thread 0 (others can only hold subscribers)
    pub unique: bool,
    pub initial: u64,
    /// shape B: main keeps an owner, collects the threads' subscribers after joining and runs the
    /// sentinel protocol (final value, then end); no blocking ops. Shape A (false): threads drop
    /// everything, subscriber threads block until the end.
    pub collect: bool,
    pub threads: Vec<ThreadSpec>,
    /// family C14T: a different kind of program (the fields above are unused: `threads` is empty)
    #[serde(default)]
    pub c14: Option<C14Spec>,
}

/// Writer-side operation on the limit / count observable of family C14T.
#[derive(Clone, Debug, Serialize, Deserialize, PartialEq, Eq)]
pub enum LOp {
    Set(usize),
    SetIfNotEq(usize),
    /// write guard taken, value set through it (subscribers are notified while the lock is still
    /// held), scheduling point, guard released
    GuardSet(usize),
    /// read guard held across a scheduling point (a reader contending with the consumer's polls)
    ReadHold,
    Yield,
}

/// Family C14T: one consumer thread drives a dynamic Head / Tail / Skip adapter over an
/// `ObservableVector` it owns (the tokio channel is touched by that thread only), with a persistent
/// park / unpark waker; a writer thread changes the limit observable (real eyeball code under the
/// simulator's locks), its last operation stores `final_limit`; an optional third thread reads the
/// observable. The consumer stops when a `Pending` poll finds the view equal to the view for
/// `final_limit`; a lost wake-up leaves it parked for ever (deadlock).
#[derive(Clone, Debug, Serialize, Deserialize, PartialEq, Eq)]
pub struct C14Spec {
    /// 0 head, 1 tail, 2 skip
    pub kind: u8,
    pub batched: bool,
    /// `dynamic_*_with_initial_value(n, ..)` instead of `dynamic_*(..)`
    pub with_initial: Option<usize>,
    /// the limit subscriber is created with `subscribe_reset`
    pub reset: bool,
    pub len: usize,
    pub first_limit: usize,
    pub writer: Vec<LOp>,
    pub reader: Vec<LOp>,
    pub final_limit: usize,
    /// every poll presents the same waker (else a fresh waker object per poll)
    pub same_waker: bool,
    /// polls made before the writer is started
    pub warmup_polls: u8,
}

pub const SENTINEL: u64 = 999_999;

pub use crate::lin::upd;

/// xoshiro-free tiny PRNG for program generation (SplitMix64 stream).
pub struct Gen(pub u64);
impl Gen {
    pub fn next(&mut self) -> u64 {
        self.0 = self.0.wrapping_add(0x9E37_79B9_7F4A_7C15);
        let mut z = self.0;
        z = (z ^ (z >> 30)).wrapping_mul(0xBF58_476D_1CE4_E5B9);
        z = (z ^ (z >> 27)).wrapping_mul(0x94D0_49BB_1331_11EB);
        z ^ (z >> 31)
    }
    pub fn below(&mut self, n: usize) -> usize {
        ((self.next() >> 11) % n as u64) as usize
    }
    pub fn chance(&mut self, a: usize, b: usize) -> bool {
        self.below(b) < a
    }
}

pub fn gen_program(prop: &str, seed: u64, index: u64) -> Program {
    let mut g = Gen(seed ^ index.wrapping_mul(0xA076_1D64_78BD_642F) ^ 0x5151);
    let _ = g.next();
    let mut next_val = 10u64;
    let mut val = |g: &mut Gen| {
        let _ = g;
        next_val += 1;
        next_val
    };
    // mostly unique values (each read is attributable to one write); a quarter of the sets and half of
    // the conditional sets draw from {1, 2, 3} instead, so that equal values meet (set_if_not_eq
    // racing with a writer that stores the same value)
    let writer_op = |g: &mut Gen, val: &mut dyn FnMut(&mut Gen) -> u64| match g.below(15) {
        12 => {
            if g.chance(1, 2) {
                Op::SetIfHashNotEq(1 + g.below(3) as u64)
            } else {
                Op::SetIfHashNotEq(val(g))
            }
        }
        13 => Op::TryWriteRmw(1 + g.below(5) as u64),
        14 => Op::TryRead,
        0..=3 => {
            if g.chance(1, 4) {
                Op::Set(1 + g.below(3) as u64)
            } else {
                Op::Set(val(g))
            }
        }
        4 => {
            if g.chance(1, 2) {
                Op::SetIfNotEq(1 + g.below(3) as u64)
            } else {
                Op::SetIfNotEq(val(g))
            }
        }
        5 => Op::Take,
        6 | 7 => Op::Update(1 + g.below(5) as u64),
        8 => Op::UpdateIf(1 + g.below(5) as u64, g.chance(1, 2)),
        9 => Op::WriteRmw(1 + g.below(5) as u64),
        10 => Op::ReadHold,
        _ => Op::Get,
    };
    match prop {
        "C04" if g.chance(1, 3) => {
            // shape A inside the C04 family: writers and readers that block, with persistent wakers
            let mut threads = Vec::new();
            for _ in 0..1 + g.below(2) {
                let k = 1 + g.below(3);
                let ops = (0..k).map(|_| writer_op(&mut g, &mut val)).collect();
                threads.push(ThreadSpec { owners: 1, weak: false, sub: None, ops });
            }
            for _ in 0..1 + g.below(2) {
                let mut ops = Vec::new();
                for _ in 0..g.below(3) {
                    ops.push(match g.below(8) {
                        0 | 1 => Op::WaitThenNextNow,
                        2 => Op::SubNextNow,
                        3 => Op::PollOnce,
                        4 => Op::SubNextRefNow,
                        5 => Op::PollNextRef,
                        6 => Op::SubReset,
                        _ => Op::SubGet,
                    });
                }
                ops.push(if g.chance(1, 2) { Op::BlockUntilEndSame } else { Op::BlockUntilEnd });
                threads.push(ThreadSpec { owners: 0, weak: false, sub: Some(g.chance(1, 3)), ops });
            }
            Program { unique: false, initial: 1, collect: false, threads, c14: None }
        }
        "C04" => {
            let n = 2 + g.below(3);
            let mut threads = Vec::new();
            let mut budget = 12usize;
            for _ in 0..n {
                let k = (1 + g.below(4)).min(budget.max(1));
                budget = budget.saturating_sub(k);
                let has_sub = g.chance(1, 2);
                let mut ops = Vec::new();
                for _ in 0..k {
                    let o = match g.below(10) {
                        0..=5 => writer_op(&mut g, &mut val),
                        6 => Op::Subscribe { reset: g.chance(1, 3) },
                        7 => Op::SubNextNow,
                        8 => {
                            if g.chance(2, 3) {
                                Op::PollOnce
                            } else {
                                Op::PollNextRef
                            }
                        }
                        _ => match g.below(8) {
                            0 | 1 => Op::SubGet,
                            2 | 3 => Op::SubReadHold,
                            4 => Op::SubNextRefNow,
                            5 => Op::SubReset,
                            6 => Op::SubCloneReset,
                            _ => Op::SubClone,
                        },
                    };
                    ops.push(o);
                }
                threads.push(ThreadSpec { owners: 1, weak: false, sub: has_sub.then(|| g.chance(1, 3)), ops });
            }
            Program { unique: false, initial: 1, collect: true, threads, c14: None }
        }
        "C14T" => {
            let len = 1 + g.below(5);
            let kind = g.below(3) as u8;
            // Tail never gets a limit beyond the length here: lowering such a limit is known finding
            // KF-D5 (it pops old-new items instead of len-new), which TaskSim identifies by its trigger
            let lim = |g: &mut Gen| match g.below(6) {
                0 => 0,
                1 => len,
                2 if kind != 1 => len + 1 + g.below(2),
                _ => g.below(len + 1),
            };
            let first_limit = lim(&mut g);
            let mut writer = Vec::new();
            let mut last = first_limit;
            for _ in 0..g.below(4) {
                writer.push(match g.below(8) {
                    0..=2 => {
                        last = lim(&mut g);
                        LOp::Set(last)
                    }
                    3 | 4 => {
                        last = lim(&mut g);
                        LOp::GuardSet(last)
                    }
                    5 => {
                        last = lim(&mut g);
                        LOp::SetIfNotEq(last)
                    }
                    _ => LOp::Yield,
                });
            }
            // the final limit differs from the one before, so the last operation always notifies
            let mut final_limit = lim(&mut g);
            if final_limit == last {
                final_limit = if last == 0 { len } else { last - 1 };
            }
            writer.push(if g.chance(1, 2) { LOp::GuardSet(final_limit) } else { LOp::Set(final_limit) });
            let mut reader = Vec::new();
            if g.chance(1, 3) {
                for _ in 0..1 + g.below(2) {
                    reader.push(if g.chance(1, 2) { LOp::ReadHold } else { LOp::Yield });
                }
            }
            let spec = C14Spec {
                kind,
                batched: g.chance(1, 2),
                with_initial: if g.chance(1, 3) { Some(lim(&mut g)) } else { None },
                reset: g.chance(1, 2),
                len,
                first_limit,
                writer,
                reader,
                final_limit,
                same_waker: g.chance(1, 2),
                warmup_polls: g.below(3) as u8,
            };
            Program { unique: false, initial: 0, collect: false, threads: Vec::new(), c14: Some(spec) }
        }
        "C02T" => {
            let unique = g.chance(1, 3);
            let mut threads = Vec::new();
            let writers = if unique { 1 } else { 1 + g.below(2) };
            for _ in 0..writers {
                let k = 1 + g.below(4);
                let mut ops: Vec<Op> = (0..k)
                    .map(|_| match g.below(12) {
                        0..=4 => Op::Set(val(&mut g)),
                        5 => Op::Update(1 + g.below(5) as u64),
                        6 => Op::SetIfNotEq(val(&mut g)),
                        7 => Op::SetIfHashNotEq(val(&mut g)),
                        8 => Op::Take,
                        9 => Op::UpdateIf(1 + g.below(5) as u64, g.chance(2, 3)),
                        10 if !unique => Op::WriteRmw(1 + g.below(5) as u64),
                        _ => Op::Yield,
                    })
                    .collect();
                if g.chance(1, 3) {
                    ops.insert(g.below(ops.len() + 1), Op::Subscribe { reset: g.chance(1, 2) });
                }
                if unique && g.chance(1, 2) {
                    ops.insert(g.below(ops.len() + 1), Op::IntoShared);
                    if g.chance(1, 2) {
                        ops.push(Op::CloneOwner);
                    }
                }
                threads.push(ThreadSpec { owners: 1, weak: false, sub: None, ops });
            }
            let subs = 1 + g.below(3);
            for _ in 0..subs {
                let mut ops = Vec::new();
                if g.chance(1, 3) {
                    ops.push(if g.chance(1, 2) { Op::PollOnce } else { Op::SubNextNow });
                }
                if g.chance(1, 4) {
                    ops.push(Op::SubClone);
                }
                if g.chance(1, 3) {
                    ops.push(Op::WaitThenNextNow);
                }
                ops.push(if g.chance(1, 2) { Op::BlockUntilEndSame } else { Op::BlockUntilEnd });
                threads.push(ThreadSpec { owners: 0, weak: false, sub: Some(g.chance(1, 3)), ops });
            }
            Program { unique, initial: 1, collect: false, threads, c14: None }
        }
        _ => {
            // C03T: last handles dropped / upgraded concurrently
            let unique = g.chance(1, 6);
            let mut threads = Vec::new();
            let droppers = if unique { 1 } else { 2 + g.below(2) };
            for i in 0..droppers {
                let mut ops = Vec::new();
                let k = g.below(3);
                for _ in 0..k {
                    ops.push(match g.below(8) {
                        0 | 1 => Op::Set(val(&mut g)),
                        2 => Op::CloneOwner,
                        3 => Op::Downgrade,
                        4 => Op::Upgrade { keep: g.chance(1, 2) },
                        5 => Op::Yield,
                        _ => Op::DropOwner,
                    });
                }
                if unique && g.chance(1, 2) {
                    ops.insert(0, Op::IntoShared);
                }
                ops.push(Op::DropOwner);
                let weak = !unique && g.chance(1, 3);
                threads.push(ThreadSpec { owners: 1 + (i == 0 && !unique && g.chance(1, 3)) as u8, weak, sub: None, ops });
            }
            if !unique && g.chance(1, 2) {
                // a thread that only has a weak reference and tries to become an owner
                let mut ops = vec![Op::Upgrade { keep: true }];
                if g.chance(2, 3) {
                    ops.push(Op::Set(val(&mut g)));
                }
                if g.chance(1, 2) {
                    ops.push(Op::Subscribe { reset: false });
                    ops.push(Op::PollOnce);
                }
                ops.push(Op::DropOwner);
                threads.push(ThreadSpec { owners: 0, weak: true, sub: None, ops });
            }
            let subs = 1 + g.below(2);
            for _ in 0..subs {
                threads.push(ThreadSpec { owners: 0, weak: false, sub: Some(g.chance(1, 3)), ops: vec![Op::BlockUntilEnd] });
            }
            Program { unique, initial: 1, collect: false, threads, c14: None }
        }
    }
}

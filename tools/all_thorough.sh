#!/bin/bash
# Run the thorough tier of every registered check once (about 2 h); print anything but exit 0.
# usage: all_thorough.sh [seed] [out-dir]
seed=${1:-1}; out=${2:-/tmp/thorough-out}
mkdir -p $out; fail=0
for p in C01 C02 C03 C04 C05 C06 C07 C08 C09 C10 C11 C12 C13 C14 C15 C16 C17 C19 C20; do
  start=$(date +%s)
  ./check $p --tier thorough --seed $seed --no-evidence --out $out > $out/$p-thorough.log 2>&1
  code=$?
  echo "$p exit=$code $(( $(date +%s) - start ))s $(grep -E '^runs=|^programs=' $out/$p-thorough.log | cut -c1-90 | tr '\n' ' ')"
  if [ $code != 0 ]; then grep -E '^violation|^minimised|harness|VIOLATION' $out/$p-thorough.log | head -4 | cut -c1-300; fail=1; fi
done
echo "all_thorough finished fail=$fail"

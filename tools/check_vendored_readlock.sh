#!/bin/bash
# The vendored readlock must equal the registry's readlock 0.1.11 except for its `use std::sync` block
# (and the README doc include). Exit 0 if so.
RL=$(ls -d ~/.cargo/registry/src/*/readlock-0.1.11 | head -1)
norm() { python3 - "$1" <<'PY'
import sys,re
s=open(sys.argv[1]).read()
s=s.replace('#![doc = include_str!("../README.md")]\n','')
s=re.sub(r'use std::\{\n    fmt, ops,\n    sync::\{.*?\},\n\};\n','<<SYNC-IMPORTS>>\n',s,flags=re.S)
s=re.sub(r'use std::\{fmt, ops\};\n// VERIF:.*?\nuse eyeball_verif_sync::\{.*?\};\n','<<SYNC-IMPORTS>>\n',s,flags=re.S)
sys.stdout.write(s)
PY
}
diff <(norm "$RL/src/lib.rs") <(norm /verif/threadsim/vendor/readlock/src/lib.rs) && echo "vendored readlock == registry readlock 0.1.11 modulo the sync imports"

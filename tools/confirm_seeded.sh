#!/bin/bash
# Confirm agent-delivered seeded defects in a scratch worktree of /repo (HEAD):
#   demo passes without the patch; with the patch the full suite passes and the demo fails.
# usage: confirm_seeded.sh <out-root> <ID>/<variant> ...   (reads <out-root>/<ID>/<variant>/{patch.diff,demo.rs,demo_path.txt})
set -u
root="$1"; shift
wt=/tmp/confirm-wt
export CARGO_NET_OFFLINE=true CARGO_TARGET_DIR=/tmp/confirm-target
git -C /repo worktree remove --force $wt 2>/dev/null
git -C /repo worktree add -q --detach $wt HEAD || exit 2
for item in "$@"; do
  d="$root/$item"
  git -C $wt checkout -q -- . ; git -C $wt clean -fdq
  path=$(grep -oE '(eyeball[a-z-]*)/tests/[A-Za-z0-9_]+\.rs' "$d/demo_path.txt" | head -1)
  crate=${path%%/*}; tname=$(basename "$path" .rs)
  [ -n "$path" ] || { echo "$item: cannot parse demo path"; continue; }
  feat=""; grep -q -- "--features async-lock" "$d/demo_path.txt" && feat="--features async-lock"
  cp "$d/demo.rs" "$wt/$path"
  ( cd $wt && cargo test -q --offline -p $crate $feat --test $tname >/tmp/confirm-$$.log 2>&1 ); r_without=$?
  if ! git -C $wt apply --check "$d/patch.diff" 2>/dev/null; then echo "$item: PATCH DOES NOT APPLY at HEAD"; continue; fi
  git -C $wt apply "$d/patch.diff"
  mv "$wt/$path" /tmp/confirm-demo-$$.rs
  ( cd $wt && cargo test -q --offline --workspace >/tmp/confirm-suite-$$.log 2>&1 && { [ -z "$feat" ] || cargo test -q --offline -p eyeball $feat >>/tmp/confirm-suite-$$.log 2>&1; } ); r_suite=$?
  cp /tmp/confirm-demo-$$.rs "$wt/$path"
  ( cd $wt && cargo test -q --offline -p $crate $feat --test $tname >/tmp/confirm-$$.log 2>&1 ); r_with=$?
  echo "$item: demo_without_patch=$r_without suite_with_patch=$r_suite demo_with_patch=$r_with  => $([ $r_without = 0 ] && [ $r_suite = 0 ] && [ $r_with != 0 ] && echo CONFIRMED || echo REJECTED)"
done
git -C /repo worktree remove --force $wt
rm -rf /tmp/confirm-target /tmp/confirm-*-$$.* /tmp/confirm-$$.log

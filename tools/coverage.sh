#!/bin/bash
# Reach measurement: which lines of /repo's library sources are executed by the simulators' quick tiers.
# Builds both engines with nightly + -C instrument-coverage in a scratch target dir (removed afterwards),
# runs every property's run families with a reduced budget and prints the lines never executed.
# usage: tools/coverage.sh [runs-per-family, default 300000]  ->  evidence/coverage.txt
set -u
here="$(cd "$(dirname "$0")/.." && pwd)"
runs="${1:-300000}"
work=/tmp/verif-cov; rm -rf $work; mkdir -p $work/prof $work/out
export CARGO_NET_OFFLINE=true RUST_BACKTRACE=0
bin="$(rustc +nightly --print sysroot)/lib/rustlib/x86_64-unknown-linux-gnu/bin"
export RUSTFLAGS="-C instrument-coverage"
( cd $here/tasksim && CARGO_TARGET_DIR=$work/t-task cargo +nightly build --release --offline -q ) || exit 2
( cd $here/threadsim && CARGO_TARGET_DIR=$work/t-thread cargo +nightly build --release --offline -q ) || exit 2
unset RUSTFLAGS
export LLVM_PROFILE_FILE="$work/prof/%p-%m.profraw"
for p in C01 C02 C03 C05 C06 C07 C08 C09 C10 C11 C12 C13 C14 C15 C16 C17 C19 C20; do
  $work/t-task/release/tasksim check $p --runs $runs --no-evidence --out $work/out >/dev/null 2>&1 || echo "tasksim $p exit $?"
done
for p in C01 C02 C03 C04 C14; do
  $work/t-thread/release/threadsim check $p --programs 60 --no-evidence --out $work/out >/dev/null 2>&1 || echo "threadsim $p exit $?"
done
$bin/llvm-profdata merge -sparse $work/prof/*.profraw -o $work/all.profdata || exit 2
$bin/llvm-cov show -instr-profile=$work/all.profdata $work/t-task/release/tasksim -object $work/t-thread/release/threadsim \
   --show-instantiation-summary=false --show-branches=count -show-line-counts-or-regions=false \
   $(ls /repo/eyeball/src/*.rs /repo/eyeball/src/*/*.rs /repo/eyeball-im/src/*.rs /repo/eyeball-im/src/*/*.rs /repo/eyeball-im-util/src/*.rs /repo/eyeball-im-util/src/*/*.rs) > $work/show.txt 2>$work/show.err
$bin/llvm-cov report -instr-profile=$work/all.profdata $work/t-task/release/tasksim -object $work/t-thread/release/threadsim \
   $(ls /repo/eyeball/src/*.rs /repo/eyeball/src/*/*.rs /repo/eyeball-im/src/*.rs /repo/eyeball-im/src/*/*.rs /repo/eyeball-im-util/src/*.rs /repo/eyeball-im-util/src/*/*.rs) > $work/report.txt 2>>$work/show.err
cp $work/report.txt $here/evidence/coverage.txt
echo "" >> $here/evidence/coverage.txt
echo "Lines of /repo never executed by any run (count 0), per file:" >> $here/evidence/coverage.txt
python3 - $work/show.txt >> $here/evidence/coverage.txt <<'PY'
import re, sys
cur = None
for line in open(sys.argv[1], errors='replace'):
    m = re.match(r'^(/repo/\S+\.rs):$', line.strip())
    if m: cur = m.group(1); print('\n' + cur); continue
    m = re.match(r'^\s*(\d+)\|\s*0\|(.*)$', line)
    if m and cur: print(f'  {m.group(1):>4}: {m.group(2).rstrip()}')
PY
echo "kept: $work/show.txt (full annotated listing)"; rm -rf $work/t-task $work/t-thread $work/prof

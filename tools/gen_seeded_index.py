#!/usr/bin/env python3
"""Regenerate seeded/INDEX.md from each seeded/<id>/{notes.md,meta.json}."""
import json, os, re
root = '/verif/seeded'
rows = []; missed = 0
for d in sorted(os.listdir(root)):
    p = f'{root}/{d}'
    if not os.path.isfile(f'{p}/meta.json'): continue
    m = json.load(open(f'{p}/meta.json'))
    note = ''
    if os.path.isfile(f'{p}/notes.md'):
        for l in open(f'{p}/notes.md'):
            l = l.strip()
            if l and not l.startswith("#"):
                l = l.lstrip("-* ")
                note = l; break
    note = re.sub(r'\s+', ' ', note).replace('|', '\\|')[:120]
    res = []
    for c in m.get('checks_run', []):
        what = (c.get('minimised') or c.get('first_violation') or '')
        what = what.split(': ', 1)[1] if ': ' in what else what
        what = re.sub(r'\s+', ' ', what).replace('|', '\\|')[:160]
        if c.get('detected'): res.append(f"{c['check']}: detected — {what}")
        else: res.append(f"{c['check']}: MISSED"); missed += 1
    rows.append(f"| {d} | {note} | {'; '.join(res)} |")
with open(f'{root}/INDEX.md', 'w') as f:
    f.write('# Seeded defects (written by sub-agents that saw only the property text) and what the checks report\n\n')
    f.write(f"{len(rows)} confirmed defects; " + ('every one is detected by the quick tier of its property\'s check.\n' if missed == 0 else f'{missed} check result(s) are misses.\n'))
    f.write('Columns: id | what was changed (first line of the agent\'s notes.md) | what the check reported (minimised violation).\n\n| id | change | check result |\n|---|---|---|\n')
    f.write('\n'.join(rows) + '\n')
print(len(rows), 'rows,', missed, 'missed')

use imbl::Vector;
fn main() {
    let mut bad = [0usize; 5];
    for n in 1..300usize {
        for pops in 0..4 {
            for pushes in 0..3 {
                let mut v: Vector<u32> = (0..n as u32).map(|x| (x * 7919) % 1000).collect();
                for _ in 0..pops { v.pop_front(); }
                for k in 0..pushes { v.push_front(5000 + k); }
                let plain: Vec<u32> = v.iter().copied().collect();
                // retain
                let mut w = v.clone();
                w.retain(|x| x % 3 != 2);
                let e: Vec<u32> = plain.iter().copied().filter(|x| x % 3 != 2).collect();
                if w.iter().copied().collect::<Vec<_>>() != e { bad[0] += 1; if bad[0] < 3 { println!("retain wrong: n={n} pops={pops} pushes={pushes}"); } }
                // sort_by
                let mut w = v.clone();
                w.sort();
                let mut e = plain.clone(); e.sort();
                if w.iter().copied().collect::<Vec<_>>() != e { bad[1] += 1; if bad[1] < 3 { println!("sort wrong: n={n} pops={pops} pushes={pushes}"); } }
                // iter_mut
                let mut w = v.clone();
                for x in w.iter_mut() { *x += 1; }
                let e: Vec<u32> = plain.iter().map(|x| x + 1).collect();
                if w.iter().copied().collect::<Vec<_>>() != e { bad[2] += 1; if bad[2] < 3 { println!("iter_mut wrong: n={n} pops={pops} pushes={pushes}"); } }
                // binary_search on sorted
                let mut w: Vector<u32> = { let mut p = plain.clone(); p.sort(); p.dedup(); p.into_iter().collect() };
                let _ = &mut w;
                // focus_mut swap directly
                let mut w = v.clone();
                if w.len() >= 2 { let l = w.len(); w.focus_mut().swap(0, l - 1); let mut e = plain.clone(); e.swap(0, l - 1); if w.iter().copied().collect::<Vec<_>>() != e { bad[3] += 1; if bad[3] < 3 { println!("swap wrong: n={n} pops={pops} pushes={pushes}"); } } }
                // set / insert / remove / truncate / split_at / skip / take
                let mut w = v.clone();
                if w.len() > 3 { w.set(2, 77); w.insert(1, 88); w.remove(3); let mut e = plain.clone(); e[2] = 77; e.insert(1, 88); e.remove(3); if w.iter().copied().collect::<Vec<_>>() != e { bad[4] += 1; if bad[4] < 3 { println!("set/insert/remove wrong: n={n} pops={pops} pushes={pushes}"); } } }
            }
        }
    }
    println!("bad: retain={} sort={} iter_mut={} swap={} set/insert/remove={}", bad[0], bad[1], bad[2], bad[3], bad[4]);
}

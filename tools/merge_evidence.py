#!/usr/bin/env python3
"""Merge the evidence of the two engines deciding one property (TaskSim first, ThreadSim second)
into the first file; the second file is removed."""
import json, os, sys
a_path, b_path = sys.argv[1], sys.argv[2]
a = json.load(open(a_path)); b = json.load(open(b_path))
ca, cb = a["coverage"], b["coverage"]
merged = dict(a)
merged["coverage"] = {
    "evaluations": ca["evaluations"] + cb["evaluations"],
    "distinct_nontrivial": ca["distinct_nontrivial"] + cb["distinct_nontrivial"],
    "rule": "two engines decide this property; evaluations and distinct_nontrivial are the sums of the two parts, each counted by its engine's rule. TaskSim: " + ca["rule"] + " ThreadSim: " + cb["rule"],
    "samples": ca["samples"][:2] + cb["samples"][:2],
    "tasksim": {k: v for k, v in ca.items() if k not in ("rule", "samples")},
    "threadsim": {k: v for k, v in cb.items() if k not in ("rule", "samples")},
}
merged["assumptions"] = a.get("assumptions", []) + [x for x in b.get("assumptions", []) if x not in a.get("assumptions", [])]
merged["wall_s"] = a["wall_s"] + b["wall_s"]
merged["violations"] = a.get("violations", 0) + b.get("violations", 0)
json.dump(merged, open(a_path, "w"), indent=1)
os.remove(b_path)

#!/bin/bash
# C20 thorough extra: replay seeded TaskSim runs under Miri (tree borrows, as upstream CI does), so
# that undefined behaviour in the library's unsafe code (reusable_box.rs, Observable::into_shared,
# readlock's readguard_into_ref, the unreachable_unchecked arm) is caught even when it does not show
# up as a double drop or a leak. 16 interpreters in parallel, each a slice of run indices.
# usage: miri_c20.sh <seed> <runs-per-slice> <out-dir>     exit 0 clean / 1 UB or violation / 2 harness
seed=${1:-1}; per=${2:-25}; out=${3:-/verif}
cd /verif/tasksim || exit 2
export MIRIFLAGS="-Zmiri-tree-borrows" TASKSIM_ANNOUNCE_RUNS=1 CARGO_NET_OFFLINE=true
cargo +nightly miri run --offline -q -- seq-runs C20 --seed $seed --runs 1 >/dev/null 2>/tmp/miri-build-$$.log || { echo "harness error: miri build/run failed"; tail -5 /tmp/miri-build-$$.log; exit 2; }
fams="C20 C20 C20 C20 C20 C20 C03 C03 C19 C19 C16 C16 asynccontention asynccontention C07 C13"
i=0; pids=()
for fam in $fams; do
  first=$((i*per))
  ( cargo +nightly miri run --offline -q -- seq-runs $fam --seed $seed --runs $per --secs $first > /tmp/miri-$$-$i.out 2>/tmp/miri-$$-$i.err; echo $? > /tmp/miri-$$-$i.code ) &
  pids+=($!); i=$((i+1))
done
wait
bad=0; total=0; i=0
for fam in $fams; do
  code=$(cat /tmp/miri-$$-$i.code); total=$((total+per))
  if [ "$code" != 0 ]; then
    last=$(grep -E "^run [0-9]+" /tmp/miri-$$-$i.out | tail -1 | cut -d' ' -f2)
    echo "MIRI: family=$fam seed=$seed run=$last exit=$code: $(grep -E 'Undefined Behavior|error:' /tmp/miri-$$-$i.err | head -2 | tr '\n' ' ' | cut -c1-300)"
    mkdir -p $out/replays
    printf '{"property":"C20","engine":"miri","family":"%s","seed":%s,"run":%s,"command":"cd /verif/tasksim && MIRIFLAGS=-Zmiri-tree-borrows cargo +nightly miri run --offline -q -- seq-runs %s --seed %s --runs 1 --secs %s"}\n' $fam $seed ${last:-0} $fam $seed ${last:-0} > $out/replays/C20-miri-$seed-$fam-${last:-0}.json
    echo "VIOLATION property=C20 replay=$out/replays/C20-miri-$seed-$fam-${last:-0}.json"
    bad=1
  fi
  i=$((i+1))
done
echo "miri: $total runs in 16 interpreters (families: $fams), undefined behaviour or violations: $bad"
rm -f /tmp/miri-$$-* /tmp/miri-build-$$.log
exit $bad

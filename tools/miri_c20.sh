#!/bin/bash
# C20 thorough extra: replay seeded TaskSim runs under Miri, so that memory errors in the library's
# unsafe code (reusable_box.rs, Observable::into_shared, readlock's readguard_into_ref, the
# unreachable_unchecked arm) and in what it calls are caught even when they do not show up as a double
# drop or a leak. 16 interpreters in parallel, each a slice of run indices. Two passes:
#   A  aliasing checks ON (-Zmiri-tree-borrows, as upstream CI), small vectors only (`--no-big`):
#      imbl 5.0.0's FocusMut (sort_by / retain on multi-chunk vectors) violates Tree Borrows — the
#      dependency's matter, see DESIGN.md §7 — and would otherwise be the only thing reported;
#   B  aliasing checks OFF (-Zmiri-disable-stacked-borrows), all runs incl. vectors of 12–80 items:
#      use-after-free, double free, invalid or uninitialised reads, leaks of the interpreter's view.
# usage: miri_c20.sh <seed> <runs-per-slice> <out-dir>     exit 0 clean / 1 UB or violation / 2 harness
seed=${1:-1}; per=${2:-25}; out=${3:-/verif}
cd /verif/tasksim || exit 2
export CARGO_NET_OFFLINE=true
MIRIFLAGS="-Zmiri-tree-borrows" cargo +nightly miri run --offline -q -- seq-runs C20 --seed $seed --runs 1 >/dev/null 2>/tmp/miri-build-$$.log || { echo "harness error: miri build/run failed"; tail -5 /tmp/miri-build-$$.log; exit 2; }
famsA="C20 C20 C20 C03 C19 C16 asynccontention C13"
famsB="C20 C20 C20 C03 C19 C16 asynccontention C07"
i=0
for pass in A B; do
  if [ $pass = A ]; then fams=$famsA; flags="-Zmiri-tree-borrows"; nobig="--no-big"; else fams=$famsB; flags="-Zmiri-disable-stacked-borrows"; nobig=""; fi
  for fam in $fams; do
    first=$((i*per))
    ( MIRIFLAGS="$flags" cargo +nightly miri run --offline -q -- seq-runs $fam --seed $seed --runs $per --secs $first --announce $nobig > /tmp/miri-$$-$i.out 2>/tmp/miri-$$-$i.err; echo "$? $pass $fam $first $flags $nobig" > /tmp/miri-$$-$i.code ) &
    i=$((i+1))
  done
done
wait
bad=0; total=0
for f in /tmp/miri-$$-*.code; do
  read code pass fam first flags nb < $f; total=$((total+per)); k=${f%.code}
  if [ "$code" != 0 ]; then
    last=$(grep -E "^run [0-9]+" $k.err | tail -1 | cut -d' ' -f2)
    echo "MIRI: pass=$pass family=$fam seed=$seed run=${last:-?} exit=$code: $(grep -E 'Undefined Behavior|^error' $k.err | head -2 | tr '\n' ' ' | cut -c1-300)"
    mkdir -p $out/replays
    rp=$out/replays/C20-miri-$seed-$pass-$fam-${last:-0}.json
    printf '{"property":"C20","engine":"miri","pass":"%s","family":"%s","seed":%s,"run":%s,"command":"cd /verif/tasksim && MIRIFLAGS=%s cargo +nightly miri run --offline -q -- seq-runs %s --seed %s --runs 1 --secs %s %s"}\n' $pass $fam $seed ${last:-0} "$flags" $fam $seed ${last:-0} "$nb" > $rp
    echo "VIOLATION property=C20 replay=$rp"
    bad=1
  fi
done
echo "miri: $total runs in 16 interpreters (pass A, tree borrows, small vectors: $famsA; pass B, aliasing checks off, all sizes: $famsB), undefined behaviour or violations: $bad"
rm -f /tmp/miri-$$-* /tmp/miri-build-$$.log
exit $bad

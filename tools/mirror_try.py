#!/usr/bin/env python3
"""Try seeded defects without touching /repo or /verif: a scratch worktree of /repo HEAD plus a
mirror of /verif's engines whose manifests point at that worktree (both under /tmp, reused between
calls, removed with `mirror_try.py clean <name>`).
usage: mirror_try.py run <name> <patch.diff> <PROP> [<PROP> ...]   (env RUNS / TIER optional)
       mirror_try.py clean <name>"""
import os, shutil, subprocess, sys, signal
def paths(name): return f'/tmp/mir-wt-{name}', f'/tmp/mir-v-{name}'
env = dict(os.environ, CARGO_NET_OFFLINE='true', RUST_BACKTRACE='0')
def sh(cmd, cwd=None, timeout=3600):
    p = subprocess.Popen(cmd, shell=True, cwd=cwd, env=env, stdout=subprocess.PIPE, stderr=subprocess.PIPE, text=True, start_new_session=True)
    try:
        out, err = p.communicate(timeout=timeout); return p.returncode, out, err
    except subprocess.TimeoutExpired:
        os.killpg(p.pid, signal.SIGKILL); out, err = p.communicate(); return 124, out, err
def ensure(name):
    wt, mv = paths(name)
    if not os.path.isdir(wt):
        sh(f'git -C /repo worktree prune')
        rc, _, err = sh(f'git -C /repo worktree add -q --detach {wt} HEAD'); assert rc == 0, err
    else:
        sh(f'git -C {wt} checkout -q -- . && git -C {wt} clean -fdq -e target && git -C {wt} checkout -q --detach $(git -C /repo rev-parse HEAD)')
    # refresh the mirror's sources (keep its target dirs)
    os.makedirs(mv, exist_ok=True)
    for d in ('tasksim', 'threadsim', 'tools'):
        sh(f'rsync -a --delete --exclude target /verif/{d}/ {mv}/{d}/')
    for f in ('check', 'known_findings.json'):
        shutil.copy(f'/verif/{f}', f'{mv}/{f}')
    for f in ('tasksim/Cargo.toml', 'tasksim/shadow/eyeball-im/Cargo.toml', 'tasksim/shadow/eyeball-im-util/Cargo.toml', 'threadsim/Cargo.toml', 'threadsim/shadow/eyeball/Cargo.toml'):
        p = f'{mv}/{f}'; s = open(p).read().replace('/repo/', wt + '/'); open(p, 'w').write(s)
    return wt, mv
def main():
    cmd, name = sys.argv[1], sys.argv[2]
    wt, mv = paths(name)
    if cmd == 'clean':
        sh(f'git -C /repo worktree remove --force {wt}'); shutil.rmtree(wt, ignore_errors=True); shutil.rmtree(mv, ignore_errors=True); sh('git -C /repo worktree prune'); return 0
    patch, props = sys.argv[3], sys.argv[4:]
    wt, mv = ensure(name)
    rc, _, err = sh(f'git -C {wt} apply {patch}')
    if rc != 0:
        print(f'  patch does not apply: {err.strip()[:200]}'); return 2
    worst = 0
    try:
        for p in props:
            extra = (f" --runs {os.environ['RUNS']}" if os.environ.get('RUNS') else '') + (f" --tier {os.environ['TIER']}" if os.environ.get('TIER') else '')
            rc, out, err = sh(f'./check {p}{extra} --no-evidence --out {mv}/out', cwd=mv, timeout=2400)
            line = next((l for l in out.splitlines() if l.startswith('minimised')), '') or next((l for l in (out+err).splitlines() if 'harness error' in l or l.startswith('error')), '')
            print(f'  {p}: exit={rc} {line[:260]}')
            worst = max(worst, rc)
    finally:
        sh(f'git -C {wt} checkout -q -- .')
    return 0
sys.exit(main())

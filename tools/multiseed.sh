#!/bin/bash
# Run every registered quick check with several other seeds; any non-zero exit is printed.
# usage: multiseed.sh <first-seed> <last-seed> [out-dir]
out=${3:-/tmp/multiseed-out}
mkdir -p $out
fail=0
for seed in $(seq $1 $2); do
  for p in C01 C02 C03 C04 C05 C06 C07 C08 C09 C10 C11 C12 C13 C14 C15 C16 C17 C19 C20; do
    ./check $p --tier quick --seed $seed --no-evidence --out $out > $out/$p-$seed.log 2>&1
    code=$?
    if [ $code != 0 ]; then echo "seed $seed $p exit=$code: $(grep -E '^violation|^minimised|harness' $out/$p-$seed.log | head -2 | cut -c1-300)"; fail=1; fi
  done
  echo "seed $seed done"
done
echo "multiseed finished fail=$fail"

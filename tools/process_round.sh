#!/bin/bash
# Confirm and record one sub-agent's seeded defects (both variants) using the agent's own scratch
# worktree for the confirmation (already built) and a per-property mirror for the checks.
# usage: process_round.sh <round-prefix e.g. r7> <PROP> <variant> [<variant> ...]   (reads /tmp/<prefix>-out/<PROP>/<variant>/)
set -u
pre="$1"; prop="$2"; shift 2
wt=/tmp/$pre-$prop; root=/tmp/$pre-out
export CARGO_NET_OFFLINE=true CARGO_TARGET_DIR=$wt/target
for var in "$@"; do
  d="$root/$prop/$var"
  git -C $wt checkout -q -- . ; git -C $wt clean -fdq -e target
  path=$(grep -oE '(eyeball[a-z-]*)/tests/[A-Za-z0-9_]+\.rs' "$d/demo_path.txt" | head -1)
  crate=${path%%/*}; tname=$(basename "$path" .rs)
  [ -n "$path" ] || { echo "$prop-$var: cannot parse demo path"; continue; }
  feat=""; grep -q -- "--features async-lock" "$d/demo_path.txt" && feat="--features async-lock"
  cp "$d/demo.rs" "$wt/$path"
  ( cd $wt && timeout 600 cargo test -q --offline -p $crate $feat --test $tname >/tmp/$pre-$prop-c1.log 2>&1 ); r_without=$?
  if ! git -C $wt apply --check "$d/patch.diff" 2>/dev/null; then echo "$prop-$var: PATCH DOES NOT APPLY at HEAD"; continue; fi
  git -C $wt apply "$d/patch.diff"
  mv "$wt/$path" /tmp/$pre-$prop-demo.rs
  ( cd $wt && cargo test -q --offline --workspace >/tmp/$pre-$prop-suite.log 2>&1 && cargo test -q --offline -p eyeball --features async-lock >>/tmp/$pre-$prop-suite.log 2>&1 ); r_suite=$?
  cp /tmp/$pre-$prop-demo.rs "$wt/$path"
  ( cd $wt && timeout 600 cargo test -q --offline -p $crate $feat --test $tname >/tmp/$pre-$prop-c2.log 2>&1 ); r_with=$?
  git -C $wt checkout -q -- . ; git -C $wt clean -fdq -e target
  ok=REJECTED; [ $r_without = 0 ] && [ $r_suite = 0 ] && [ $r_with != 0 ] && ok=CONFIRMED
  echo "$prop-$var: demo_without_patch=$r_without suite_with_patch=$r_suite demo_with_patch=$r_with => $ok"
  if [ $ok = CONFIRMED ]; then
    ( unset CARGO_TARGET_DIR; MIRROR_NAME=$pre-$prop python3 /verif/tools/record_seeded_mirror.py "$d" $prop $var )
  fi
done

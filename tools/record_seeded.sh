#!/bin/bash
# Record a confirmed seeded defect under /verif/seeded/<ID>-<variant>/ and what the property's
# check reports for it (quick tier). usage: record_seeded.sh <src-dir> <PROP> <variant> [extra check props...]
set -u
src="$1"; prop="$2"; var="$3"; shift 3
dst=/verif/seeded/$prop-$var
mkdir -p "$dst"
cp "$src/patch.diff" "$dst/patch.diff"
cp "$src/demo.rs" "$dst/demo.rs"
cp "$src/demo_path.txt" "$dst/demo_path.txt"
cp "$src/notes.md" "$dst/notes.md"
out=/tmp/rec-out-$$
trap 'git -C /repo checkout -q -- . ; rm -rf $out' EXIT
[ -z "$(git -C /repo status --porcelain --untracked-files=no)" ] || { echo "/repo dirty"; exit 2; }
git -C /repo apply "$dst/patch.diff" || { echo "$prop-$var: patch does not apply"; exit 2; }
results="[]"
for p in $prop "$@"; do
  res=$(/verif/check $p --tier quick --no-evidence --out $out 2>&1); code=$?
  viol=$(echo "$res" | grep -E "^VIOLATION" | head -1)
  first=$(echo "$res" | grep -E "^violation in" | head -1 | cut -c1-400)
  mini=$(echo "$res" | grep -E "^minimised" | head -1 | cut -c1-400)
  replay=$(echo "$viol" | sed -n 's/.*replay=//p')
  if [ -n "$replay" ] && [ -f "$replay" ]; then cp "$replay" "$dst/replay-$p.json"; fi
  results=$(python3 - "$results" "$p" "$code" "$first" "$mini" <<'PY'
import json,sys
r=json.loads(sys.argv[1]); r.append({"check":sys.argv[2],"tier":"quick","exit":int(sys.argv[3]),"detected":sys.argv[3]=="1","first_violation":sys.argv[4],"minimised":sys.argv[5]}); print(json.dumps(r))
PY
)
done
python3 - "$dst" "$prop" "$var" "$results" <<'PY'
import json,sys,re
dst,prop,var,results=sys.argv[1:5]
notes=open(dst+'/notes.md').read()
meta={"id":f"{prop}-{var}","breaks_property":prop,
 "origin":"written by a fresh sub-agent that was given only the text of the property and its own scratch worktree of /repo (nothing from /verif)",
 "needs_to_manifest":"see notes.md (the sub-agent's own description of the change and of the specific condition it needs)",
 "confirmed_by":"tools/confirm_seeded.sh in a scratch worktree at /repo HEAD: demo passes without the patch; with the patch the full suite (cargo test --workspace --offline, plus -p eyeball --features async-lock where relevant) passes and the demo fails",
 "applies_to":"/repo HEAD at the time of recording (hook and fix commits included); rebased by hand where a fix commit touched the same lines",
 "checks_run":json.loads(results)}
json.dump(meta,open(dst+'/meta.json','w'),indent=1)
print(f"{prop}-{var}:", ", ".join(f"{c['check']}={'DETECTED' if c['detected'] else 'missed'}" for c in meta['checks_run']))
PY

#!/usr/bin/env python3
"""Like record_seeded.sh, but without touching /repo: applies the patch in the scratch worktree of
tools/mirror_try.py and runs the property's quick check in the mirror.
usage: record_seeded_mirror.py <src-dir> <PROP> <variant> [extra props...]"""
import json, os, shutil, subprocess, sys
sys.path.insert(0, '/verif/tools')
import importlib.util
spec = importlib.util.spec_from_file_location('mirror_try', '/verif/tools/mirror_try.py')
src, prop, var = sys.argv[1:4]; extra = sys.argv[4:]
dst = f'/verif/seeded/{prop}-{var}'
os.makedirs(dst, exist_ok=True)
for f in ('patch.diff', 'demo.rs', 'demo_path.txt', 'notes.md'):
    shutil.copy(f'{src}/{f}', f'{dst}/{f}')
name = os.environ.get('MIRROR_NAME', 'rec')
wt, mv = f'/tmp/mir-wt-{name}', f'/tmp/mir-v-{name}'
env = dict(os.environ, CARGO_NET_OFFLINE='true', RUST_BACKTRACE='0')
def sh(cmd, cwd=None):
    return subprocess.run(cmd, shell=True, cwd=cwd, env=env, capture_output=True, text=True)
# (re)create the mirror through mirror_try's ensure()
r = sh(f"python3 -c \"import importlib.util as u; s=u.spec_from_file_location('m','/verif/tools/mirror_try.py'); import sys; sys.argv=['x','noop','{name}']; m=u.module_from_spec(s); \nimport types\" ")
r = sh(f"python3 - <<'PY'\nimport importlib.util as u, sys\nsys.argv=['mirror_try.py','clean','__none__']\ns=u.spec_from_file_location('m','/verif/tools/mirror_try.py')\nm=u.module_from_spec(s)\ntry:\n    s.loader.exec_module(m)\nexcept SystemExit:\n    pass\nm.ensure('{name}')\nPY")
assert os.path.isdir(wt), r.stderr
r = sh(f'git -C {wt} apply {dst}/patch.diff')
if r.returncode != 0:
    print(f'{prop}-{var}: patch does not apply'); sys.exit(2)
results = []
try:
    for p in [prop] + extra:
        out = f'{mv}/out'
        r = sh(f'./check {p} --tier quick --no-evidence --out {out}', cwd=mv)
        lines = r.stdout.splitlines()
        first = next((l for l in lines if l.startswith('violation in')), '')[:400]
        mini = next((l for l in lines if l.startswith('minimised')), '')[:400]
        viol = next((l for l in lines if l.startswith('VIOLATION')), '')
        if 'replay=' in viol:
            rp = viol.split('replay=')[1].strip()
            if os.path.isfile(rp): shutil.copy(rp, f'{dst}/replay-{p}.json')
        results.append({"check": p, "tier": "quick", "exit": r.returncode, "detected": r.returncode == 1, "first_violation": first, "minimised": mini})
finally:
    sh(f'git -C {wt} checkout -q -- .')
meta = {"id": f"{prop}-{var}", "breaks_property": prop,
 "origin": "written by a fresh sub-agent that was given only the text of the property and its own scratch worktree of /repo (nothing from /verif)",
 "needs_to_manifest": "see notes.md (the sub-agent's own description of the change and of the specific condition it needs)",
 "confirmed_by": "tools/confirm_seeded.sh in a scratch worktree at /repo HEAD: demo passes without the patch; with the patch the full suite (cargo test --workspace --offline, plus -p eyeball --features async-lock where relevant) passes and the demo fails",
 "applies_to": "/repo HEAD at the time of recording (hook and fix commits included); rebased by hand where a fix commit touched the same lines",
 "checks_run": results}
json.dump(meta, open(f'{dst}/meta.json', 'w'), indent=1)
print(f"{prop}-{var}:", ", ".join(f"{c['check']}={'DETECTED' if c['detected'] else 'missed'}" for c in results))

#!/usr/bin/env python3
"""Re-run the quick tier of every seeded defect's check against the current machinery, in N parallel
mirrors (scratch worktrees of /repo; /repo itself is not touched). Prints one line per defect and
exits 1 if any is no longer detected.
usage: reverify_seeded.py [N=4] [id-prefix ...]"""
import json, os, subprocess, sys, threading, queue
N = int(sys.argv[1]) if len(sys.argv) > 1 else 4
pref = sys.argv[2:]
root = '/verif/seeded'
ids = [d for d in sorted(os.listdir(root)) if os.path.isfile(f'{root}/{d}/meta.json') and (not pref or any(d.startswith(p) for p in pref))]
q = queue.Queue()
for d in ids: q.put(d)
lock = threading.Lock(); bad = []
def worker(k):
    name = f'rv{k}'
    while True:
        try: d = q.get_nowait()
        except queue.Empty: break
        m = json.load(open(f'{root}/{d}/meta.json'))
        props = [c['check'] for c in m['checks_run'] if c.get('detected')]
        r = subprocess.run(['python3', '/verif/tools/mirror_try.py', 'run', name, f'{root}/{d}/patch.diff'] + props, capture_output=True, text=True)
        ok = all(f'{p}: exit=1' in r.stdout for p in props)
        with lock:
            print(f"{d}: {'detected' if ok else 'NOT DETECTED'}  " + ' | '.join(l.strip()[:140] for l in r.stdout.splitlines()), flush=True)
            if not ok: bad.append(d)
    subprocess.run(['python3', '/verif/tools/mirror_try.py', 'clean', name])
ts = [threading.Thread(target=worker, args=(k,)) for k in range(N)]
[t.start() for t in ts]; [t.join() for t in ts]
print(f'{len(ids)} seeded defects re-verified, {len(bad)} not detected: {bad}')
sys.exit(1 if bad else 0)

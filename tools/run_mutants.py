#!/usr/bin/env python3
"""Sensitivity campaign with hand-written mutants (DESIGN.md §8, Appendix B).

Works entirely outside /repo and /verif: a scratch worktree of /repo HEAD (/tmp/mut-wt) and a
mirror of /verif's engines whose manifests point at that worktree (/tmp/mutv). For every mutant:
apply, make sure it compiles and passes the pinned suite (else it is 'killed by the suite' and not
judged), run the quick tier of the expected properties' checks in the mirror, record what they
report, revert. Writes /verif/evidence/mutants.txt. Removes worktree and mirror at the end.
usage: run_mutants.py [ID ...]"""
import json, os, re, shutil, subprocess, sys, time
sys.path.insert(0, '/verif/tools/mutants')
from catalogue import M
WT, MV = '/tmp/mut-wt', '/tmp/mutv'
env = dict(os.environ, CARGO_NET_OFFLINE='true', RUST_BACKTRACE='0')
class R:  # result of sh()
    def __init__(self, rc, out, err): self.returncode, self.stdout, self.stderr = rc, out, err
def sh(cmd, cwd=None, timeout=3600):
    """Run in its own process group; on timeout kill the whole group (a hanging test binary is a
    grandchild of cargo and would otherwise keep the pipes open forever). rc 124 = timed out."""
    import signal
    p = subprocess.Popen(cmd, shell=True, cwd=cwd, env=env, stdout=subprocess.PIPE, stderr=subprocess.PIPE, text=True, start_new_session=True)
    try:
        out, err = p.communicate(timeout=timeout)
        return R(p.returncode, out, err)
    except subprocess.TimeoutExpired:
        os.killpg(p.pid, signal.SIGKILL)
        out, err = p.communicate()
        return R(124, out, err)
sh(f'git -C /repo worktree remove --force {WT}'); shutil.rmtree(WT, ignore_errors=True)
assert sh(f'git -C /repo worktree add -q --detach {WT} HEAD').returncode == 0
shutil.rmtree(MV, ignore_errors=True); os.makedirs(MV)
for d in ('tasksim', 'threadsim', 'tools'):
    shutil.copytree(f'/verif/{d}', f'{MV}/{d}', ignore=shutil.ignore_patterns('target'))
for f in ('check', 'known_findings.json'):
    shutil.copy(f'/verif/{f}', f'{MV}/{f}')
for f in ('tasksim/Cargo.toml', 'tasksim/shadow/eyeball-im/Cargo.toml', 'tasksim/shadow/eyeball-im-util/Cargo.toml', 'threadsim/Cargo.toml', 'threadsim/shadow/eyeball/Cargo.toml'):
    p = f'{MV}/{f}'; s = open(p).read().replace('/repo/', WT + '/'); open(p, 'w').write(s)
only = set(sys.argv[1:])
rows = []
t0 = time.time()
for x in M:
    if only and x['id'] not in only: continue
    path = f"{WT}/{x['file']}"
    src = open(path).read()
    if src.count(x['old']) != 1:
        rows.append((x['id'], 'anchor-missing', '', x['note'])); continue
    open(path, 'w').write(src.replace(x['old'], x['new']))
    try:
        feat = ' && cargo test -q --offline -p eyeball --features async-lock' if x['file'].startswith('eyeball/') else ''
        r = sh(f'cargo test -q --offline --workspace{feat}', cwd=WT, timeout=300)
        if r.returncode != 0:
            kind = 'killed-by-suite (hang)' if r.returncode == 124 else 'does-not-compile' if 'error[' in r.stderr or 'error:' in r.stderr and 'test failed' not in r.stderr else 'killed-by-suite'
            rows.append((x['id'], kind, '', x['note'])); continue
        if not x['props']:
            rows.append((x['id'], 'not-judged', 'expected survivor / equivalent', x['note'])); continue
        det = []
        for p in x['props']:
            r = sh(f'./check {p} --tier quick --no-evidence --out {MV}/out', cwd=MV, timeout=1500)
            line = next((l for l in r.stdout.splitlines() if l.startswith('minimised')), '')
            det.append((p, r.returncode, line[:160]))
        status = 'DETECTED' if any(c == 1 for _, c, _ in det) else ('HARNESS-ERROR' if any(c == 2 for _, c, _ in det) else 'SURVIVED')
        rows.append((x['id'], status, '; '.join(f'{p}:exit={c} {l}' for p, c, l in det), x['note']))
    finally:
        open(path, 'w').write(src)
    print(rows[-1][0], rows[-1][1], rows[-1][2][:200], flush=True)
with open('/verif/evidence/mutants.txt' if not only else '/tmp/mutants-partial.txt', 'w') as f:
    f.write(f"# hand-written mutant campaign, /repo HEAD {sh('git -C /repo rev-parse --short HEAD').stdout.strip()}, {time.strftime('%Y-%m-%d %H:%M')}, {time.time()-t0:.0f}s\n")
    f.write("# id | status | what the quick tier of the expected properties' checks reported | mutant\n")
    for r in rows: f.write(' | '.join(r) + '\n')
    n = lambda s: sum(1 for r in rows if r[1] == s)
    f.write(f"# judged: {n('DETECTED')+n('SURVIVED')}  detected: {n('DETECTED')}  survived: {n('SURVIVED')}  killed by the suite: {sum(1 for r in rows if r[1].startswith('killed-by-suite'))}  not compiling: {n('does-not-compile')}  not judged (equivalent): {n('not-judged')}\n")
sh(f'git -C /repo worktree remove --force {WT}'); shutil.rmtree(MV, ignore_errors=True)

#!/bin/bash
# Determinism self-test (DESIGN.md §8): for every run family, several seeds, the digest of all
# per-run outcomes must be identical across fresh processes and worker counts {1, 16}.
# ThreadSim: shuttle's uncontrolled-nondeterminism scheduler + identical repeated batches.
# usage: selftest_determinism.sh [seeds] [runs]
seeds=${1:-30}; runs=${2:-20000}
cd /verif/tasksim && cargo build --release --offline -q || exit 2
bin=/verif/tasksim/target/release/tasksim
bad=0; n=0
for fam in C01 C02 C03 C04 C19 C16 C16async C05 C06 C07 C07enum C08 C09 C10 C11 C12 C13 C14 C15 C17 C20; do
  for seed in $(seq 1 $seeds); do
    a=$($bin digest $fam --seed $seed --runs $runs --jobs 1)
    b=$($bin digest $fam --seed $seed --runs $runs --jobs 16)
    c=$($bin digest $fam --seed $seed --runs $runs --jobs 5)
    n=$((n+3))
    if [ "$a" != "$b" ] || [ "$a" != "$c" ]; then echo "NONDETERMINISM family=$fam seed=$seed: $a $b $c"; bad=1; fi
  done
  echo "family $fam: $seeds seeds x $runs runs x 3 processes (jobs 1, 16, 5): digests identical=$([ $bad = 0 ] && echo yes || echo NO)"
done
cd /verif/threadsim && cargo build --release --offline -q || exit 2
/verif/threadsim/target/release/threadsim selftest --programs 60 2>/dev/null | tail -3 || bad=1
[ ${PIPESTATUS[0]} = 0 ] || bad=1
echo "selftest determinism: $([ $bad = 0 ] && echo ok || echo FAILED) ($n tasksim digests compared)"
exit $bad

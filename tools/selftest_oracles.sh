#!/bin/bash
# Oracle self-tests (DESIGN.md §8): crafted positive and negative cases for the view functions, the
# checked apply, the observable model and the linearizability checker.
export CARGO_NET_OFFLINE=true
( cd /verif/tasksim && cargo test --release --offline 2>&1 | grep -E "^test |test result" ) || exit 2
( cd /verif/threadsim && cargo test --release --offline 2>&1 | grep -E "^test |test result" ) || exit 2

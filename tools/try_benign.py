#!/usr/bin/env python3
"""False-alarm test: apply each behaviour-preserving change (<root>/<group>/<v>/patch.diff) in a
scratch mirror and run the quick tier of the given checks (default: all claimed); every check
must exit 0 (except the checks listed in a change's expected_alarms.txt, which must exit 1). usage: try_benign.py <root> [N=3] [--props C01,C02] [dir-with-patch.diff relative to root ...]   (VERIF_SEED is passed on)"""
import json, os, subprocess, sys, threading, queue
root = sys.argv[1]; args = sys.argv[2:]
N = 3; props = None; items = []
i = 0
while i < len(args):
    if args[i] == '--props': props = args[i+1].split(','); i += 2
    elif args[i].isdigit(): N = int(args[i]); i += 1
    else: items.append(args[i]); i += 1
if props is None:
    props = [c['property_id'] for c in json.load(open('/verif/MANIFEST.json'))['checks']]
if not items:
    items = sorted(os.path.relpath(d, root) for d, _, fs in os.walk(root) if 'patch.diff' in fs)
q = queue.Queue(); [q.put(x) for x in items]
lock = threading.Lock(); alarms = []
def worker(k):
    name = f'bn{os.getpid()}x{k}'
    while True:
        try: it = q.get_nowait()
        except queue.Empty: break
        r = subprocess.run(['python3', '/verif/tools/mirror_try.py', 'run', name, f'{root}/{it}/patch.diff'] + props, capture_output=True, text=True)
        lines = [l.strip() for l in r.stdout.splitlines()]
        exp = open(f'{root}/{it}/expected_alarms.txt').read().split() if os.path.isfile(f'{root}/{it}/expected_alarms.txt') else []
        bad = [l for l in lines if ('exit=1' not in l if l.split(':')[0] in exp else 'exit=0' not in l)] or ([] if len(lines) == len(props) else ['harness: expected %d check results, got %d: %s' % (len(props), len(lines), r.stderr[-300:])])
        with lock:
            print(f"{it}: {'quiet' if not bad else 'ALARM'} ({len(lines)} checks)", flush=True)
            for l in bad: print('    ' + l[:400], flush=True)
            if bad: alarms.append(it)
    subprocess.run(['python3', '/verif/tools/mirror_try.py', 'clean', name])
ts = [threading.Thread(target=worker, args=(k,)) for k in range(N)]
[t.start() for t in ts]; [t.join() for t in ts]
print(f'{len(items)} changes tried, alarms on {len(alarms)}: {alarms}')

#!/bin/bash
# Apply a seeded defect to /repo, run the given checks (quick budget unless RUNS is set), undo it.
# usage: try_seeded.sh <patch.diff> <PROP> [<PROP> ...]
set -u
patch="$1"; shift
out=/tmp/try-out-$$
trap 'git -C /repo checkout -q -- . ; rm -rf $out' EXIT
if [ -n "$(git -C /repo status --porcelain --untracked-files=no)" ]; then echo "/repo is dirty, refusing"; exit 2; fi
git -C /repo apply "$patch" || { echo "patch does not apply"; exit 2; }
for p in "$@"; do
  res=$(/verif/check $p ${RUNS:+--runs $RUNS} ${SECS:+--secs $SECS} --no-evidence --out $out 2>&1)
  code=$?
  line=$(echo "$res" | grep -E "^minimised|^violation in" | tail -1 | cut -c1-300)
  runs=$(echo "$res" | grep -oE "^(runs|executions|programs)=[0-9]+" | tr "\n" " ")
  echo "  $p: exit=$code $runs $line"
done
